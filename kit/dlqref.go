package verifkit

// DLQRef is the boring reference model of the dead-letter queue's nack window (C07): it keeps the last N outcomes
// (initially all acks); a rejection is tolerated iff the rejections among the most recent N outcomes, counting it, do
// not exceed T. N == 0 removes the limit; T == 0 (with N > 0) tolerates none. The first refused rejection freezes the
// window: every later rejection is refused as well (the pipeline is stopping).
type DLQRef struct {
	N, T   int
	last   []bool // most recent outcomes, oldest first, at most N
	Frozen bool
}

func NewDLQRef(n, t int) *DLQRef { return &DLQRef{N: n, T: t} }

func (r *DLQRef) push(nack bool) {
	r.last = append(r.last, nack)
	if len(r.last) > r.N {
		r.last = r.last[len(r.last)-r.N:]
	}
}

// Ack records a positive outcome.
func (r *DLQRef) Ack() {
	if r.N == 0 || r.Frozen {
		return
	}
	r.push(false)
}

// Nack records a rejection and reports whether it is tolerated.
func (r *DLQRef) Nack() bool {
	if r.N == 0 {
		return true
	}
	if r.Frozen {
		return false
	}
	r.push(true)
	n := 0
	for _, b := range r.last {
		if b {
			n++
		}
	}
	if n > r.T {
		r.Frozen = true
		return false
	}
	return true
}

// Partitions calls f with every way of cutting the outcome sequence seq (true = rejection) into batches of identical
// outcomes (each maximal run is cut in every possible way), as the batch sizes in order.
func Partitions(seq []bool, f func(sizes []int)) {
	var runs []int
	for i := 0; i < len(seq); {
		j := i
		for j < len(seq) && seq[j] == seq[i] {
			j++
		}
		runs = append(runs, j-i)
		i = j
	}
	var cur []int
	var rec func(ri int)
	var comp func(ri, left int)
	comp = func(ri, left int) {
		if left == 0 {
			rec(ri + 1)
			return
		}
		for c := 1; c <= left; c++ {
			cur = append(cur, c)
			comp(ri, left-c)
			cur = cur[:len(cur)-1]
		}
	}
	rec = func(ri int) {
		if ri == len(runs) {
			f(cur)
			return
		}
		comp(ri, runs[ri])
	}
	rec(0)
}
