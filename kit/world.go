package verifkit

import (
	"context"
	"fmt"
	"sort"
	"strings"
	"sync"
	"time"
)

// Event is one entry of the externally visible event log of an execution: something that crossed the plugin /
// store / API boundary. Oracles only ever look at this log.
type Event struct {
	Seq  int           `json:"seq"`
	T    time.Duration `json:"t"` // virtual time since the start of the execution
	Comp string        `json:"comp"`
	Kind string        `json:"kind"`
	Idx  int           `json:"idx"`
	Arg  string        `json:"arg,omitempty"`
}

func (e Event) String() string {
	s := e.Comp + "." + e.Kind
	if e.Idx >= 0 {
		s += fmt.Sprintf("(%d)", e.Idx)
	}
	if e.Arg != "" {
		s += "[" + e.Arg + "]"
	}
	return s
}

type pend struct {
	name  string
	base  string
	menu  []string
	ch    chan string
	since time.Duration
}

// World is the environment of one execution: the gate registry and the event log.
type World struct {
	mu       sync.Mutex
	log      []Event
	pending  []*pend
	counters map[string]int
	compHash map[string]uint64
	wake     chan struct{}
	aborted  bool
	start    time.Time
	monitors []func(w *World, e Event)
	// Vars is free storage for scenarios (e.g. snapshots); guarded by the caller.
	Vars map[string]any
	vio  []Violation
	// slowest is the longest virtual time any environment event stayed pending before it was answered.
	slowestBusy time.Duration
	slowest     time.Duration
	// statement-level points (see points.go)
	pointsOn   bool
	pointCount map[string]int
	pointsSeen []string
	armed      map[string]bool
}

// SlowestAnswer returns the longest virtual time a gate stayed pending before it was granted (or the run ended).
// SlowestBusyAnswer is SlowestAnswer without the "~~idle:" gates (events the environment produces only after a quiet
// period by design, e.g. a source that has nothing to read for a while): how long the engine had to wait for an answer to
// something it ASKED for.
func (w *World) SlowestBusyAnswer() time.Duration {
	w.mu.Lock()
	defer w.mu.Unlock()
	return w.slowestBusy
}

func (w *World) SlowestAnswer() time.Duration {
	w.mu.Lock()
	defer w.mu.Unlock()
	return w.slowest
}

// NewWorld creates a world; must be called inside the bubble of the execution.
func NewWorld() *World {
	return &World{counters: map[string]int{}, compHash: map[string]uint64{}, wake: make(chan struct{}, 1), start: time.Now(), Vars: map[string]any{}}
}

// Now returns virtual time since the start of the execution.
func (w *World) Now() time.Duration { return time.Since(w.start) }

func (w *World) signal() {
	select {
	case w.wake <- struct{}{}:
	default:
	}
}

// Monitor registers a function that sees every event as it is logged (runs under the world lock: must not block).
func (w *World) Monitor(f func(w *World, e Event)) { w.monitors = append(w.monitors, f) }

// Log appends an event to the log.
func (w *World) Log(comp, kind string, idx int, arg string) {
	w.mu.Lock()
	e := Event{Seq: len(w.log), T: time.Since(w.start), Comp: comp, Kind: kind, Idx: idx, Arg: arg}
	w.log = append(w.log, e)
	hc := comp
	if comp == "db" || comp == "ctl" || comp == "lc" { // written by several goroutines: bucket by what was written
		hc = comp + ":" + kind + ":" + arg
		idx = 0
	} else {
		hc = comp + ":" + kind // per component and kind: a fake's own goroutines (emitter / ack receiver) race for the log
	}
	w.compHash[hc] = Hash64(fmt.Sprintf("%x|%s|%d|%s", w.compHash[hc], kind, idx, arg))
	mons := w.monitors
	w.mu.Unlock()
	for _, m := range mons {
		m(w, e)
	}
	w.signal()
}

// Flag records a violation noticed by a monitor during the execution (evaluated by the explorer at the end).
func (w *World) Flag(key, text string) {
	w.mu.Lock()
	w.vio = append(w.vio, Violation{Key: key, Text: text})
	w.mu.Unlock()
}

// Flagged returns the violations flagged so far.
func (w *World) Flagged() []Violation {
	w.mu.Lock()
	defer w.mu.Unlock()
	return append([]Violation(nil), w.vio...)
}

// Events returns a copy of the log.
func (w *World) Events() []Event {
	w.mu.Lock()
	defer w.mu.Unlock()
	return append([]Event(nil), w.log...)
}

// Aborted reports whether the execution is being wound down.
func (w *World) Aborted() bool {
	w.mu.Lock()
	defer w.mu.Unlock()
	return w.aborted
}

// Answers that Gate can return besides the menu entries.
const (
	AnsCtx   = "ctx"   // the caller's context was cancelled while the event was pending
	AnsAbort = "abort" // the execution is over; the fake should fail fast
)

// Gate registers a pending environment event named base#k (k counts the gates of that base name) with a menu of
// answers (menu[0] is the default) and parks the caller until the explorer grants it, its context is cancelled,
// or the execution is aborted.
func (w *World) Gate(ctx context.Context, base string, menu ...string) string {
	if len(menu) == 0 {
		menu = []string{"ok"}
	}
	w.mu.Lock()
	if w.aborted {
		w.mu.Unlock()
		return AnsAbort
	}
	k := w.counters[base]
	w.counters[base] = k + 1
	p := &pend{name: fmt.Sprintf("%s#%d", base, k), base: base, menu: menu, ch: make(chan string, 1), since: time.Since(w.start)}
	w.pending = append(w.pending, p)
	w.mu.Unlock()
	w.signal()
	var done <-chan struct{}
	if ctx != nil {
		done = ctx.Done()
	}
	select {
	case a := <-p.ch:
		return a
	case <-done:
		w.mu.Lock()
		removed := w.remove(p)
		w.mu.Unlock()
		if !removed { // granted at the same instant: honour the grant
			return <-p.ch
		}
		w.signal()
		return AnsCtx
	}
}

func (w *World) remove(p *pend) bool {
	for i, q := range w.pending {
		if q == p {
			w.pending = append(w.pending[:i:i], w.pending[i+1:]...)
			return true
		}
	}
	return false
}

// PendingGate describes a pending event for the explorer.
type PendingGate struct {
	Name  string
	Base  string
	Menu  []string
	Since time.Duration
}

// Pending returns the pending events, oldest first.
func (w *World) Pending() []PendingGate {
	w.mu.Lock()
	defer w.mu.Unlock()
	out := make([]PendingGate, len(w.pending))
	for i, p := range w.pending {
		out[i] = PendingGate{Name: p.name, Base: p.base, Menu: p.menu, Since: p.since}
	}
	return out
}

// Grant answers a pending event.
func (w *World) Grant(name, answer string) bool {
	w.mu.Lock()
	for _, p := range w.pending {
		if p.name == name {
			if d := time.Since(w.start) - p.since; d > w.slowest {
				w.slowest = d
			}
			if d := time.Since(w.start) - p.since; d > w.slowestBusy && !strings.HasPrefix(p.name, "~~idle:") {
				w.slowestBusy = d
			}
			w.remove(p)
			w.mu.Unlock()
			p.ch <- answer
			return true
		}
	}
	w.mu.Unlock()
	return false
}

// Abort ends the execution: every pending and future gate returns AnsAbort.
func (w *World) Abort() {
	w.mu.Lock()
	w.aborted = true
	for _, p := range w.pending {
		if d := time.Since(w.start) - p.since; d > w.slowest {
			w.slowest = d
		}
	}
	ps := w.pending
	w.pending = nil
	w.mu.Unlock()
	for _, p := range ps {
		p.ch <- AnsAbort
	}
}

// DrainWake empties the wake signal.
func (w *World) DrainWake() {
	select {
	case <-w.wake:
	default:
	}
}

// Wake is signalled whenever a gate is registered/cancelled or an event is logged.
func (w *World) Wake() <-chan struct{} { return w.wake }

// StateHash is a canonical key of the execution state at a quiescent point: what each component has been told and
// has answered so far (per-component sequences, not their global interleaving) plus the set of pending events.
func (w *World) StateHash() uint64 {
	w.mu.Lock()
	defer w.mu.Unlock()
	comps := make([]string, 0, len(w.compHash))
	for c := range w.compHash {
		comps = append(comps, c)
	}
	sort.Strings(comps)
	var sb strings.Builder
	for _, c := range comps {
		fmt.Fprintf(&sb, "%s=%x;", c, w.compHash[c])
	}
	names := make([]string, 0, len(w.pending))
	for _, p := range w.pending {
		names = append(names, p.name)
	}
	sort.Strings(names)
	sb.WriteString(strings.Join(names, ","))
	return Hash64(sb.String())
}

// FormatLog renders the event log (for violation reports).
func FormatLog(evs []Event) string {
	var sb strings.Builder
	for _, e := range evs {
		fmt.Fprintf(&sb, "%3d t=%-8s %s\n", e.Seq, e.T, e.String())
	}
	return sb.String()
}
