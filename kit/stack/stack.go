// Package stack wires the REAL conduit services (pipeline, connector, processor, lifecycle v1 / v2) exactly as
// pkg/conduit/runtime.go does, over the explorer's store (verifkit.VDB) and scripted plugins (fakes).
package stack

import (
	"context"
	"fmt"
	"os"
	"sort"
	"strings"
	"time"

	"github.com/conduitio/conduit/pkg/connector"
	"github.com/conduitio/conduit/pkg/foundation/log"
	"github.com/conduitio/conduit/pkg/lifecycle"
	lifecyclev2 "github.com/conduitio/conduit/pkg/lifecycle-poc"
	"github.com/conduitio/conduit/pkg/pipeline"
	"github.com/conduitio/conduit/pkg/processor"
	"github.com/conduitio/conduit/pkg/provisioning"
	"github.com/conduitio/conduit/pkg/verifkit"
	"github.com/conduitio/conduit/pkg/verifkit/fakes"
	"github.com/rs/zerolog"
)

// Engine selects the pipeline engine.
type Engine int

const (
	// V1 is the default engine (pkg/lifecycle + pkg/lifecycle/stream).
	V1 Engine = 1
	// V2 is the arch-v2 preview (pkg/lifecycle-poc + funnel).
	V2 Engine = 2
)

func (e Engine) String() string {
	if e == V2 {
		return "v2"
	}
	return "v1"
}

// PipelineID is the id of the one pipeline the stack provisions.
const PipelineID = "pl"

// ProcSpec describes a processor to attach.
type ProcSpec struct {
	ID        string
	Plugin    string // name of a scripted processor registered in Procs
	Parent    string // "" = pipeline, otherwise connector id
	Workers   int
	Condition string
}

// Topology describes the provisioned pipeline.
type Topology struct {
	Sources      []fakes.SourceScript
	Dests        []fakes.DestScript
	DLQ          *fakes.DestScript // nil: DLQ plugin "dlq" with an auto-acking script and window defaults below
	DLQWindow    int
	DLQThreshold int
	Procs        []ProcSpec
}

// Options of the stack.
type Options struct {
	Engine          Engine
	Recovery        *lifecycle.ErrRecoveryCfg
	PersisterDelay  time.Duration
	PersisterBundle int
	// ProcPlugins is the processor plugin registry (scripted processors).
	ProcPlugins processor.PluginService
	// FaultCommits/FaultSets enable failing store answers once the stack is provisioned.
	FaultCommits, FaultSets bool
	// LateCommits makes commit gates sort last (a flush stays in flight by default).
	LateCommits bool
	// CommitDelays: see VDB.CommitDelays.
	CommitDelays []time.Duration
	// LatePuts does the same for non-transactional writes (pipeline / connector instance puts).
	LatePuts bool
	// NoGateStore leaves store writes ungated (E2 style use).
	NoGateStore bool
}

// Lifecycle is the part of both lifecycle services the harnesses drive.
type Lifecycle interface {
	Init(ctx context.Context) error
	Start(ctx context.Context, pipelineID string) error
	Stop(ctx context.Context, pipelineID string, force bool) error
	StopAndWait(ctx context.Context, pipelineID string) error
	WaitPipeline(id string) error
	Wait(timeout time.Duration) error
	ReconfigureProcessor(ctx context.Context, pipelineID, processorID string) error
}

// Stack is one "server process": real services over a store.
type Stack struct {
	W          *verifkit.World
	Opt        Options
	DB         *verifkit.VDB
	Logger     log.CtxLogger
	Persister  *connector.Persister
	Pipelines  *pipeline.Service
	Connectors *connector.Service
	Processors *processor.Service
	Plugins    *fakes.Plugins
	LC         Lifecycle
	V1         *lifecycle.Service
	V2         *lifecyclev2.Service
	Prov       *provisioning.Service
}

// DefaultRecovery is a finite, fast recovery configuration.
func DefaultRecovery() *lifecycle.ErrRecoveryCfg {
	return &lifecycle.ErrRecoveryCfg{MinDelay: time.Second, MaxDelay: 10 * time.Second, BackoffFactor: 2, MaxRetries: 2, MaxRetriesWindow: time.Minute}
}

type noProcs struct{}

// New builds the services on db (nil = empty store) and loads whatever the store holds (Init), like a server start.
func New(w *verifkit.World, plugins *fakes.Plugins, db *verifkit.VDB, opt Options) (*Stack, error) {
	ctx := context.Background()
	if db == nil {
		db = verifkit.NewVDB(w)
	}
	if opt.Recovery == nil {
		opt.Recovery = DefaultRecovery()
	}
	if opt.PersisterDelay == 0 {
		opt.PersisterDelay = time.Second
	}
	if opt.PersisterBundle == 0 {
		opt.PersisterBundle = 10000
	}
	logger := log.Nop()
	if os.Getenv("VERIF_LOG") != "" {
		logger = log.New(zerolog.New(zerolog.ConsoleWriter{Out: os.Stderr, NoColor: true}).Level(zerolog.TraceLevel))
	}
	s := &Stack{W: w, Opt: opt, DB: db, Logger: logger, Plugins: plugins}
	db.Describe = Describe
	s.Persister = connector.NewPersister(logger, db, opt.PersisterDelay, opt.PersisterBundle)
	s.Pipelines = pipeline.NewService(logger, db)
	s.Connectors = connector.NewService(logger, db, s.Persister)
	s.Processors = processor.NewService(logger, db, opt.ProcPlugins)
	if err := s.Pipelines.Init(ctx); err != nil {
		return nil, err
	}
	if err := s.Connectors.Init(ctx); err != nil {
		return nil, err
	}
	if err := s.Processors.Init(ctx); err != nil {
		return nil, err
	}
	switch opt.Engine {
	case V2:
		s.V2 = lifecyclev2.NewService(logger, opt.Recovery, s.Connectors, s.Processors, plugins, s.Pipelines, true)
		s.V2.OnFailure(func(e lifecyclev2.FailureEvent) { w.Log("lc", "failure", -1, errText(e.Error)) })
		s.LC = s.V2
	default:
		s.V1 = lifecycle.NewService(logger, opt.Recovery, s.Connectors, s.Processors, plugins, s.Pipelines)
		s.V1.OnFailure(func(e lifecycle.FailureEvent) { w.Log("lc", "failure", -1, errText(e.Error)) })
		s.LC = s.V1
	}
	switch opt.Engine {
	case V2:
		s.Prov = provisioning.NewService(db, logger, s.Pipelines, s.Connectors, s.Processors, plugins, s.V2, "")
	default:
		s.Prov = provisioning.NewService(db, logger, s.Pipelines, s.Connectors, s.Processors, plugins, s.V1, "")
	}
	return s, nil
}

func errText(err error) string {
	if err == nil {
		return ""
	}
	return err.Error()
}

// Provision creates the pipeline of the topology through the real services (store writes are not gated yet).
func (s *Stack) Provision(t Topology) error {
	ctx := context.Background()
	pl, err := s.Pipelines.Create(ctx, PipelineID, pipeline.Config{Name: "verif-pipeline"}, pipeline.ProvisionTypeAPI)
	if err != nil {
		return err
	}
	dlq := fakes.DestScript{Name: "dlq", AckMenu: []string{"ok"}}
	if t.DLQ != nil {
		dlq = *t.DLQ
	}
	if _, ok := s.Plugins.Dests[dlq.Name]; !ok {
		s.Plugins.AddDest(dlq)
	}
	if _, err := s.Pipelines.UpdateDLQ(ctx, pl.ID, pipeline.DLQ{Plugin: dlq.Name, Settings: map[string]string{}, WindowSize: t.DLQWindow, WindowNackThreshold: t.DLQThreshold}); err != nil {
		return err
	}
	for _, src := range t.Sources {
		if _, ok := s.Plugins.Sources[src.Name]; !ok {
			s.Plugins.AddSource(src)
		}
		if _, err := s.Connectors.Create(ctx, src.Name, connector.TypeSource, src.Name, pl.ID, connector.Config{Name: src.Name, Settings: map[string]string{}}, connector.ProvisionTypeAPI); err != nil {
			return err
		}
		if _, err := s.Pipelines.AddConnector(ctx, pl.ID, src.Name); err != nil {
			return err
		}
	}
	for _, d := range t.Dests {
		if _, ok := s.Plugins.Dests[d.Name]; !ok {
			s.Plugins.AddDest(d)
		}
		if _, err := s.Connectors.Create(ctx, d.Name, connector.TypeDestination, d.Name, pl.ID, connector.Config{Name: d.Name, Settings: map[string]string{}}, connector.ProvisionTypeAPI); err != nil {
			return err
		}
		if _, err := s.Pipelines.AddConnector(ctx, pl.ID, d.Name); err != nil {
			return err
		}
	}
	for _, p := range t.Procs {
		parent := processor.Parent{ID: pl.ID, Type: processor.ParentTypePipeline}
		if p.Parent != "" {
			parent = processor.Parent{ID: p.Parent, Type: processor.ParentTypeConnector}
		}
		w := p.Workers
		if w == 0 {
			w = 1
		}
		if _, err := s.Processors.Create(ctx, p.ID, p.Plugin, parent, processor.Config{Settings: map[string]string{}, Workers: w}, processor.ProvisionTypeAPI, p.Condition); err != nil {
			return err
		}
		if p.Parent == "" {
			if _, err := s.Pipelines.AddProcessor(ctx, pl.ID, p.ID); err != nil {
				return err
			}
		} else if _, err := s.Connectors.AddProcessor(ctx, p.Parent, p.ID); err != nil {
			return err
		}
	}
	return nil
}

// Arm switches the store gates on (after provisioning).
func (s *Stack) Arm() {
	if !s.Opt.NoGateStore {
		s.DB.GateCommits = true
	}
	s.DB.FaultCommits = s.Opt.FaultCommits
	s.DB.LateCommits = s.Opt.LateCommits
	s.DB.LatePuts = s.Opt.LatePuts
	s.DB.CommitDelays = s.Opt.CommitDelays
	s.DB.FaultSets = s.Opt.FaultSets
	if s.Opt.FaultSets {
		var keys []string
		for id, c := range s.Connectors.List(context.Background()) {
			if c.Type == connector.TypeSource {
				keys = append(keys, "connector:instance:"+id)
			}
		}
		sort.Strings(keys)
		s.DB.FaultKeys = keys
	}
}

// Status returns the in-memory status of the pipeline.
func (s *Stack) Status() string {
	pl, err := s.Pipelines.Get(context.Background(), PipelineID)
	if err != nil {
		return "?"
	}
	return pl.GetStatus().String() + "|" + pl.Error
}

// Describe decodes the durable content with the REAL stores: stored source positions and the pipeline status.
// Format: "pos=<src>:<idx>,...;status=<Status>;err=<0|1>".
func Describe(values map[string][]byte) string {
	ctx := context.Background()
	db := verifkit.NewVDBFrom(nil, values)
	var sb strings.Builder
	conns, err := connector.NewStore(db, log.Nop()).GetAll(ctx)
	sb.WriteString("pos=")
	if err != nil {
		sb.WriteString("!decode-error:" + err.Error())
	} else {
		ids := make([]string, 0, len(conns))
		for id := range conns {
			ids = append(ids, id)
		}
		sort.Strings(ids)
		first := true
		for _, id := range ids {
			c := conns[id]
			if c.Type != connector.TypeSource {
				continue
			}
			idx := -1
			if st, ok := c.State.(connector.SourceState); ok {
				idx = fakes.PosIndex(st.Position)
			}
			if !first {
				sb.WriteString(",")
			}
			first = false
			fmt.Fprintf(&sb, "%s:%d", id, idx)
		}
	}
	pls, err := pipeline.NewStore(db).GetAll(ctx)
	if err == nil {
		if pl, ok := pls[PipelineID]; ok {
			hasErr := 0
			if pl.Error != "" {
				hasErr = 1
			}
			fmt.Fprintf(&sb, ";status=%s;err=%d", pl.GetStatus(), hasErr)
		}
	}
	return sb.String()
}

// ParseDescribe parses the Describe format.
func ParseDescribe(arg string) (pos map[string]int, status string, hasErr bool) {
	pos = map[string]int{}
	for _, f := range strings.Split(arg, ";") {
		switch {
		case strings.HasPrefix(f, "pos="):
			for _, kv := range strings.Split(f[4:], ",") {
				if k := strings.LastIndex(kv, ":"); k > 0 {
					var n int
					fmt.Sscanf(kv[k+1:], "%d", &n)
					pos[kv[:k]] = n
				}
			}
		case strings.HasPrefix(f, "status="):
			status = f[7:]
		case f == "err=1":
			hasErr = true
		}
	}
	return pos, status, hasErr
}
