package fakes

import (
	"context"
	"fmt"
	"io"
	"strconv"
	"strings"
	"sync"
	"time"

	"github.com/conduitio/conduit-commons/config"
	"github.com/conduitio/conduit-commons/opencdc"
	sdk "github.com/conduitio/conduit-processor-sdk"
	"github.com/conduitio/conduit/pkg/foundation/cerrors"
	"github.com/conduitio/conduit/pkg/plugin/processor/egress"
	"github.com/conduitio/conduit/pkg/verifkit"
)

// ProcScript scripts a processor plugin.
type ProcScript struct {
	Name string
	// Gate makes the completion of every Process call a pending event (menu = Menu, default {"ok"}).
	Gate bool
	Menu []string
	// KindOf returns the result kind for a record: "pass" (default), "filter", "error", "split2", "split3",
	// "short" (this and all following records of the call are left out), "nil", "posrewrite", "extra".
	KindOf func(src string, idx int, call int) string
	// OpenMenu gates Open with the given answers when set (e.g. {"ok","err"}).
	OpenMenu []string
	// TeardownErr makes every Teardown of this processor report an error after doing its work (a WASM module whose
	// close fails, a built-in processor whose client cannot be closed cleanly).
	TeardownErr bool

	mu        sync.Mutex
	shortSeen map[string]bool
}

// Proc is one instance of a scripted processor.
type Proc struct {
	sdk.UnimplementedProcessor
	W    *verifkit.World
	S    *ProcScript
	Inst string // "<name>#<ordinal>"
	gen  string
	call int
}

func (p *Proc) Specification() (sdk.Specification, error) {
	return sdk.Specification{Name: p.S.Name, Version: "v0.0.0"}, nil
}

func (p *Proc) Configure(_ context.Context, cfg config.Config) error {
	p.gen = cfg["gen"]
	if p.gen == "" {
		p.gen = "g0"
	}
	return nil
}

func (p *Proc) Open(ctx context.Context) error {
	if len(p.S.OpenMenu) > 0 {
		a := p.W.Gate(ctx, "proc."+p.S.Name+".open", p.S.OpenMenu...)
		if a == "slow" {
			// a slow but responding plugin: Open takes a minute (virtual time) and then succeeds
			p.W.Log("proc:"+p.Inst, "slowopen", -1, p.gen)
			select {
			case <-time.After(60 * time.Second):
				a = "ok"
			case <-ctx.Done():
				a = "ctx"
			}
		}
		if a != "ok" {
			p.W.Log("proc:"+p.Inst, "openfail", -1, p.gen)
			return cerrors.Errorf("processor %s: open failed (%s)", p.S.Name, a)
		}
	}
	p.W.Log("proc:"+p.Inst, "open", -1, p.gen)
	return nil
}

func (p *Proc) Teardown(context.Context) error {
	p.W.Log("proc:"+p.Inst, "teardown", -1, p.gen)
	if p.S.TeardownErr {
		p.W.Log("proc:"+p.Inst, "teardownerr", -1, p.gen)
		return cerrors.Errorf("processor %s: close failed", p.S.Name)
	}
	return nil
}

func (p *Proc) Process(ctx context.Context, recs []opencdc.Record) []sdk.ProcessedRecord {
	call := p.call
	p.call++
	for _, r := range recs {
		src, idx, _, _ := Ident(r)
		p.W.Log("proc:"+p.Inst, "in", idx, src+"|gen="+p.gen)
	}
	answer := "ok"
	if p.S.Gate {
		menu := p.S.Menu
		if len(menu) == 0 {
			menu = []string{"ok"}
		}
		// named by content, not by arrival order: parallel workers share one processor instance and call it concurrently
		first := "empty"
		if len(recs) > 0 {
			src, idx, _, _ := Ident(recs[0])
			first = src + ":" + strconv.Itoa(idx)
		}
		answer = p.W.Gate(ctx, "proc."+p.S.Name+".process["+first+"]", menu...)
	}
	out := make([]sdk.ProcessedRecord, 0, len(recs))
	if answer != "ok" {
		for range recs {
			out = append(out, sdk.ErrorRecord{Error: cerrors.Errorf("processor %s failed (%s)", p.S.Name, answer)})
		}
		return out
	}
	for _, r := range recs {
		src, idx, _, _ := Ident(r)
		kind := "pass"
		if p.S.KindOf != nil {
			kind = p.S.KindOf(src, idx, call)
		}
		if kind == "shortonce" { // returned short the first time this record is seen, processed normally when retried
			p.S.mu.Lock()
			if p.S.shortSeen == nil {
				p.S.shortSeen = map[string]bool{}
			}
			first := !p.S.shortSeen[src+":"+strconv.Itoa(idx)]
			p.S.shortSeen[src+":"+strconv.Itoa(idx)] = true
			p.S.mu.Unlock()
			kind = "pass"
			if first {
				kind = "short"
			}
		}
		if kind == "nestretry" {
			// for the pieces of a record an EARLIER processor split: the first piece passes; the last piece is left out the first
			// time it is seen (a short result: the engine retries it) and is split in two when it comes back
			piece := r.Metadata["verif.piece"]
			kind = "pass"
			if piece != "" && !strings.HasPrefix(piece, "0/") && !strings.Contains(piece, ".") {
				p.S.mu.Lock()
				if p.S.shortSeen == nil {
					p.S.shortSeen = map[string]bool{}
				}
				key := src + ":" + strconv.Itoa(idx) + ":" + piece
				first := !p.S.shortSeen[key]
				p.S.shortSeen[key] = true
				p.S.mu.Unlock()
				kind = "split2"
				if first {
					kind = "short"
				}
			}
		}
		r = r.Clone()
		// work on a copy, as a plugin behind the SDK boundary does: the engine's own record must not change unless it
		// stores the result
		r = r.Clone()
		if r.Metadata == nil {
			r.Metadata = opencdc.Metadata{}
		}
		r.Metadata["verif.gen"] = p.gen
		r.Metadata["verif.path"] += p.S.Name + ","
		switch kind {
		case "pass", "":
			out = append(out, sdk.SingleRecord(r))
		case "filter":
			p.W.Log("proc", "filter", idx, src)
			out = append(out, sdk.FilterRecord{})
		case "error":
			p.W.Log("proc", "error", idx, src)
			out = append(out, sdk.ErrorRecord{Error: cerrors.Errorf("processor %s rejected %s:%d", p.S.Name, src, idx)})
		case "split2", "split3":
			n := 2
			if kind == "split3" {
				n = 3
			}
			var pieces sdk.MultiRecord
			for k := 0; k < n; k++ {
				pc := r.Clone()
				label := strconv.Itoa(k) + "/" + strconv.Itoa(n)
				if outer := r.Metadata["verif.piece"]; outer != "" {
					label = outer + "." + label // a piece of a piece (a later processor splits again)
				}
				pc.Metadata["verif.piece"] = label
				pieces = append(pieces, pc)
			}
			p.W.Log("proc", "split", idx, fmt.Sprintf("%s|n=%d", src, n))
			out = append(out, pieces)
		case "nilerr": // an ErrorRecord whose error is not set (what a standalone plugin's reply with the error field unset becomes)
			p.W.Log("proc", "error", idx, src)
			out = append(out, sdk.ErrorRecord{})
		case "errshort": // fails this record and stops: an ErrorRecord followed by nothing (the rest of the batch is left out)
			p.W.Log("proc", "error", idx, src)
			out = append(out, sdk.ErrorRecord{Error: cerrors.Errorf("processor %s rejected %s:%d", p.S.Name, src, idx)})
			return out
		case "eoferr": // fails this record with an error that wraps io.EOF (e.g. an HTTP client whose server closed the connection)
			p.W.Log("proc", "error", idx, src)
			out = append(out, sdk.ErrorRecord{Error: fmt.Errorf("processor %s: upstream closed the connection: %w", p.S.Name, io.EOF)})
		case "fmid": // filters the middle piece of a record an earlier processor split, passes everything else
			if strings.HasPrefix(r.Metadata["verif.piece"], "1/") {
				p.W.Log("proc", "filterpiece", idx, src+"|piece="+r.Metadata["verif.piece"])
				out = append(out, sdk.FilterRecord{})
			} else {
				out = append(out, sdk.SingleRecord(r))
			}
		case "multi1pos": // a MultiRecord holding ONE record that carries its own position (a chunker on a one-chunk input)
			pc := r.Clone()
			pc.Position = opencdc.Position(string(r.Position) + "-chunk-0")
			p.W.Log("proc", "multi1pos", idx, src)
			out = append(out, sdk.MultiRecord{pc})
		case "multi0": // an empty MultiRecord
			p.W.Log("proc", "multi0", idx, src)
			p.W.Log("proc", "filter", idx, src) // an engine that accepts it handles it as "no record comes out" = filtered
			out = append(out, sdk.MultiRecord{})
		case "short":
			p.W.Log("proc", "short", idx, src)
			return out
		case "nil":
			out = append(out, nil)
		case "emptypos":
			r.Position = nil
			out = append(out, sdk.SingleRecord(r))
		case "posrewrite":
			r.Position = opencdc.Position("rewritten")
			out = append(out, sdk.SingleRecord(r))
		case "extra":
			out = append(out, sdk.SingleRecord(r), sdk.SingleRecord(r))
		default:
			out = append(out, sdk.SingleRecord(r))
		}
	}
	return out
}

// Procs is a processor plugin registry (processor.PluginService) of scripted processors.
type Procs struct {
	W       *verifkit.World
	mu      sync.Mutex
	Scripts map[string]*ProcScript
	count   map[string]int
}

// NewProcs creates an empty registry.
func NewProcs(w *verifkit.World) *Procs {
	return &Procs{W: w, Scripts: map[string]*ProcScript{}, count: map[string]int{}}
}

// Add registers a script under its name.
func (p *Procs) Add(s ProcScript) {
	cp := ProcScript{Name: s.Name, Gate: s.Gate, Menu: s.Menu, KindOf: s.KindOf, OpenMenu: s.OpenMenu, TeardownErr: s.TeardownErr}
	p.Scripts[s.Name] = &cp
}

// NewProcessor implements processor.PluginService.
func (p *Procs) NewProcessor(_ context.Context, pluginName string, _ string, _ egress.Policy) (sdk.Processor, error) {
	p.mu.Lock()
	defer p.mu.Unlock()
	s, ok := p.Scripts[pluginName]
	if !ok {
		return nil, cerrors.Errorf("processor plugin %q not found", pluginName)
	}
	n := p.count[pluginName]
	p.count[pluginName] = n + 1
	return &Proc{W: p.W, S: s, Inst: pluginName + "#" + strconv.Itoa(n)}, nil
}
