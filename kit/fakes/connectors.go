// Package fakes holds the scripted plugins the explorer uses as the outside world of the real engine. The fakes
// implement the SDK-side plugin interfaces (pconnector.SourcePlugin / DestinationPlugin), and are wrapped by the
// REAL built-in dispenser, adapter, sandbox and in-memory stream of pkg/plugin/connector/builtin.
package fakes

import (
	"context"
	"fmt"
	"strconv"
	"strings"
	"sync"
	"time"

	"github.com/conduitio/conduit-commons/opencdc"
	"github.com/conduitio/conduit-connector-protocol/pconnector"
	"github.com/conduitio/conduit/pkg/foundation/cerrors"
	"github.com/conduitio/conduit/pkg/foundation/log"
	"github.com/conduitio/conduit/pkg/plugin"
	connectorPlugin "github.com/conduitio/conduit/pkg/plugin/connector"
	"github.com/conduitio/conduit/pkg/plugin/connector/builtin"
	"github.com/conduitio/conduit/pkg/verifkit"
)

// MetaID is the metadata key carrying a record's identity "<source>:<index>".
const MetaID = "verif.id"

// Pos is the position of record i. It is the same for every source on purpose (collisions across sources).
func Pos(i int) opencdc.Position { return opencdc.Position("p" + strconv.Itoa(i)) }

// PosIndex parses a position made by Pos (-1 for empty, -2 for garbage).
func PosIndex(p opencdc.Position) int {
	if len(p) == 0 {
		return -1
	}
	s := string(p)
	if !strings.HasPrefix(s, "p") {
		return -2
	}
	i, err := strconv.Atoi(s[1:])
	if err != nil {
		return -2
	}
	return i
}

// Ident extracts (source, index, viaDLQ) from a record that went through the pipeline (or its DLQ wrapping).
func Ident(r opencdc.Record) (src string, idx int, dlq bool, extra string) {
	if id, ok := r.Metadata[MetaID]; ok {
		s, i := splitID(id)
		return s, i, false, r.Metadata["verif.piece"]
	}
	if sd, ok := r.Payload.After.(opencdc.StructuredData); ok {
		if md, ok := sd["metadata"]; ok {
			switch m := md.(type) {
			case map[string]string:
				if s, i := splitID(m[MetaID]); i >= 0 || m[MetaID] != "" {
					return s, i, true, m["verif.piece"]
				}
			case opencdc.Metadata:
				if s, i := splitID(m[MetaID]); i >= 0 || m[MetaID] != "" {
					return s, i, true, m["verif.piece"]
				}
			case opencdc.StructuredData:
				id, _ := m[MetaID].(string)
				if s, i := splitID(id); i >= 0 || id != "" {
					pc, _ := m["verif.piece"].(string)
					return s, i, true, pc
				}
			case map[string]any:
				id, _ := m[MetaID].(string)
				if s, i := splitID(id); i >= 0 || id != "" {
					pc, _ := m["verif.piece"].(string)
					return s, i, true, pc
				}
			}
		}
	}
	// a bare record (SourceScript.Bare: no metadata, no payload) is recognised by its key, also inside a DLQ record
	if k, ok := r.Key.(opencdc.RawData); ok && r.Metadata[MetaID] == "" {
		if s, i := splitID(string(k)); i >= 0 {
			return s, i, false, ""
		}
	}
	if sd, ok := r.Payload.After.(opencdc.StructuredData); ok {
		var key string
		switch k := sd["key"].(type) {
		case opencdc.RawData:
			key = string(k)
		case []byte:
			key = string(k)
		case string:
			key = k
		}
		if s, i := splitID(key); i >= 0 {
			return s, i, true, ""
		}
	}
	return fmt.Sprintf("?after=%T:%v", r.Payload.After, r.Payload.After), -2, false, ""
}

func splitID(id string) (string, int) {
	k := strings.LastIndex(id, ":")
	if k < 0 {
		return "?", -2
	}
	i, err := strconv.Atoi(id[k+1:])
	if err != nil {
		return "?", -2
	}
	return id[:k], i
}

// SourceScript scripts one source connector.
type SourceScript struct {
	Name string
	// Batches lists the record indices returned by each Read, e.g. [[0],[1,2]].
	Batches [][]int
	// ReadMenu is the answer menu of every read gate (default {"ok"}; "err" makes the plugin's Run fail).
	ReadMenu []string
	// GateOpen / GateTeardown / GateStop make those calls pending events (menu {"ok","err"} when Faults is set).
	GateOpen, GateTeardown, GateStop bool
	// LateAckRecv makes the plugin slow to take acks off its stream: before every receive it parks on the gate
	// "~late:<name>.ackrecv", which sorts after every other alternative (the engine's ack sender stays blocked in Send
	// until nothing else can run).
	LateAckRecv bool
	// AckSendFaults makes every ack the ENGINE sends to the plugin a pending event "<name>.acksend" with the answers
	// {ok, fail}: "fail" is a transient transport failure - Send returns an error and the plugin never sees that request
	// (what a gRPC stream does under a momentary broken pipe); the engine is expected to retry.
	AckSendFaults bool
	// IdleBatches lists batch indices whose FIRST read is an "~~idle:" gate: by default the source produces that batch only
	// once the engine has no timer left to fire (a quiet period longer than any back-off / retry window).
	IdleBatches []int
	Faults      bool
	// PositionOf overrides the position bytes of a record (C09 shapes: empty / duplicate positions).
	PositionOf func(i int) opencdc.Position
	// Bare lists record indices that the plugin emits with nothing but a position and a key: no metadata, no payload
	// (a legal, minimal record).
	Bare []int
	// NoMatch lists record indices carrying metadata verif.match=n (all others y): processor conditions
	// `{{ eq (index .Metadata "verif.match") "y" }}` then skip exactly those records.
	NoMatch []int
}

// MatchCondition is the processor condition that is false exactly for the records listed in SourceScript.NoMatch.
const MatchCondition = `{{ eq (index .Metadata "verif.match") "y" }}`

// Source is a scripted SDK-level source plugin. One value serves every (re)start of the connector: each Open
// starts a new epoch that resumes after the position it was given.
type Source struct {
	W *verifkit.World
	S SourceScript

	mu       sync.Mutex
	epoch    int
	resume   int // first record index to emit in this epoch
	lastSent opencdc.Position
	stopRead context.CancelFunc
	loopDone chan struct{}
	ackDone  chan struct{} // closed when the ack receiver of the current run has exited (the stream was closed)
	idleUsed map[int]bool  // batches whose idle first read was already used (later epochs read them normally)
}

func (s *Source) menu(gated bool) []string {
	if s.S.Faults {
		return []string{"ok", "err"}
	}
	return []string{"ok"}
}

func (s *Source) pos(i int) opencdc.Position {
	if s.S.PositionOf != nil {
		return s.S.PositionOf(i)
	}
	return Pos(i)
}

// Record builds record i of this source.
func (s *Source) Record(i int) opencdc.Record {
	match := "y"
	for _, n := range s.S.NoMatch {
		if n == i {
			match = "n"
		}
	}
	for _, n := range s.S.Bare {
		if n == i {
			return opencdc.Record{Position: s.pos(i), Operation: opencdc.OperationCreate, Key: opencdc.RawData(s.S.Name + ":" + strconv.Itoa(i))}
		}
	}
	return opencdc.Record{
		Position:  s.pos(i),
		Operation: opencdc.OperationCreate,
		Metadata:  opencdc.Metadata{MetaID: s.S.Name + ":" + strconv.Itoa(i), "verif.match": match},
		Key:       opencdc.RawData(s.S.Name + ":" + strconv.Itoa(i)),
		Payload:   opencdc.Change{After: opencdc.RawData("v" + strconv.Itoa(i))},
	}
}

func (s *Source) Configure(context.Context, pconnector.SourceConfigureRequest) (pconnector.SourceConfigureResponse, error) {
	return pconnector.SourceConfigureResponse{}, nil
}

func (s *Source) Open(ctx context.Context, req pconnector.SourceOpenRequest) (pconnector.SourceOpenResponse, error) {
	if s.S.GateOpen {
		if a := s.W.Gate(ctx, s.S.Name+".open", s.menu(true)...); a != "ok" {
			s.W.Log(s.S.Name, "openfail", -1, a)
			return pconnector.SourceOpenResponse{}, cerrors.Errorf("%s: open failed (%s)", s.S.Name, a)
		}
	}
	s.mu.Lock()
	s.epoch++
	s.resume = PosIndex(req.Position) + 1
	if s.resume < 0 {
		s.resume = 0
	}
	s.lastSent = nil
	s.mu.Unlock()
	s.W.Log(s.S.Name, "open", PosIndex(req.Position), string(req.Position))
	return pconnector.SourceOpenResponse{}, nil
}

func (s *Source) Run(ctx context.Context, stream pconnector.SourceRunStream) error {
	srv := stream.Server()
	readCtx, stopRead := context.WithCancel(ctx)
	loopDone := make(chan struct{})
	ackDone := make(chan struct{})
	s.mu.Lock()
	s.stopRead, s.loopDone, s.ackDone = stopRead, loopDone, ackDone
	resume := s.resume
	s.mu.Unlock()
	defer stopRead()
	// acks from the engine
	go func() {
		defer close(ackDone)
		for {
			if s.S.LateAckRecv {
				s.W.Gate(ctx, "~late:"+s.S.Name+".ackrecv", "ok")
			}
			req, err := srv.Recv()
			if err != nil {
				return
			}
			for _, p := range req.AckPositions {
				s.W.Log(s.S.Name, "ack", PosIndex(p), string(p))
			}
		}
	}()
	menu := s.S.ReadMenu
	if len(menu) == 0 {
		menu = []string{"ok"}
	}
	var runErr error
	func() {
		defer close(loopDone)
		for bi, b := range s.S.Batches {
			var recs []opencdc.Record
			for _, i := range b {
				if i >= resume {
					recs = append(recs, s.Record(i))
				}
			}
			if len(recs) == 0 {
				continue
			}
			gate := s.S.Name + ".read"
			for _, ib := range s.S.IdleBatches {
				if ib == bi && !s.idleUsed[bi] {
					gate = "~~idle:" + gate
				}
			}
			a := s.W.Gate(readCtx, gate, menu...)
			if a == "ok" {
				if s.idleUsed == nil {
					s.idleUsed = map[int]bool{}
				}
				s.idleUsed[bi] = true // only the first successful read of the batch waits for the quiet period
			}
			if a == "err" {
				s.W.Log(s.S.Name, "readerr", -1, "")
				runErr = cerrors.Errorf("%s: read failed", s.S.Name)
				return
			}
			if a == "fatal" {
				s.W.Log(s.S.Name, "readerr", -1, "fatal")
				runErr = cerrors.FatalError(cerrors.Errorf("%s: read failed fatally", s.S.Name))
				return
			}
			if a != "ok" {
				return
			}
			for _, r := range recs {
				_, i := splitID(r.Metadata[MetaID])
				s.W.Log(s.S.Name, "emit", i, "")
			}
			if err := srv.Send(pconnector.SourceRunResponse{Records: recs}); err != nil {
				return
			}
			s.mu.Lock()
			s.lastSent = recs[len(recs)-1].Position
			s.mu.Unlock()
		}
	}()
	if runErr != nil {
		return runErr
	}
	<-ctx.Done()
	return ctx.Err()
}

func (s *Source) Stop(ctx context.Context, _ pconnector.SourceStopRequest) (pconnector.SourceStopResponse, error) {
	if s.S.GateStop {
		if a := s.W.Gate(ctx, s.S.Name+".stop", s.menu(true)...); a != "ok" {
			s.W.Log(s.S.Name, "stopfail", -1, a)
			return pconnector.SourceStopResponse{}, cerrors.Errorf("%s: stop failed (%s)", s.S.Name, a)
		}
	}
	s.mu.Lock()
	stopRead, loopDone := s.stopRead, s.loopDone
	s.mu.Unlock()
	if stopRead != nil {
		stopRead()
		select {
		case <-loopDone:
		case <-ctx.Done():
			return pconnector.SourceStopResponse{}, ctx.Err()
		}
	}
	s.mu.Lock()
	last := s.lastSent
	s.mu.Unlock()
	s.W.Log(s.S.Name, "stop", PosIndex(last), "")
	return pconnector.SourceStopResponse{LastPosition: last}, nil
}

func (s *Source) Teardown(ctx context.Context, _ pconnector.SourceTeardownRequest) (pconnector.SourceTeardownResponse, error) {
	if s.S.GateTeardown {
		if a := s.W.Gate(ctx, s.S.Name+".teardown", s.menu(true)...); a != "ok" {
			s.W.Log(s.S.Name, "teardown", -1, a)
			return pconnector.SourceTeardownResponse{}, cerrors.Errorf("%s: teardown failed (%s)", s.S.Name, a)
		}
	}
	// The engine closes the run stream before it tears the plugin down. Wait for our ack receiver to see that, so that
	// "ack" and "teardown" are logged in the order they really happened (both are logged by this plugin's goroutines).
	s.mu.Lock()
	ackDone := s.ackDone
	s.ackDone = nil
	s.mu.Unlock()
	if ackDone != nil {
		select {
		case <-ackDone:
		case <-ctx.Done():
		}
	}
	s.W.Log(s.S.Name, "teardown", -1, "")
	if err := ctx.Err(); err != nil {
		// like the real plugin adapters (the built-in sandbox, a gRPC call): a call made with an already cancelled
		// context reports the cancellation although the plugin goes down
		return pconnector.SourceTeardownResponse{}, err
	}
	return pconnector.SourceTeardownResponse{}, nil
}

func (s *Source) LifecycleOnCreated(context.Context, pconnector.SourceLifecycleOnCreatedRequest) (pconnector.SourceLifecycleOnCreatedResponse, error) {
	return pconnector.SourceLifecycleOnCreatedResponse{}, nil
}

func (s *Source) LifecycleOnUpdated(context.Context, pconnector.SourceLifecycleOnUpdatedRequest) (pconnector.SourceLifecycleOnUpdatedResponse, error) {
	return pconnector.SourceLifecycleOnUpdatedResponse{}, nil
}

func (s *Source) LifecycleOnDeleted(context.Context, pconnector.SourceLifecycleOnDeletedRequest) (pconnector.SourceLifecycleOnDeletedResponse, error) {
	return pconnector.SourceLifecycleOnDeletedResponse{}, nil
}

// DestScript scripts one destination (or DLQ) connector.
type DestScript struct {
	Name string
	// AckMenu is the answer menu of every ack gate. Answers: "ok" (all records of the request acked), "nack" (all
	// rejected), "n:<bits>" (bit i set = record i rejected), "err" (the plugin's Run fails), and the reply-shape
	// answers of C09: "wrongpos", "extra", "none", "reorder", "dup", "empty" (responses without acks), "chunkextra", "skip"
	// (never confirmed, held acks of earlier writes stay held).
	AckMenu []string
	// MenuFor overrides AckMenu per request (k = ordinal of the request, n = records in it).
	MenuFor func(k, n int) []string
	// ScriptAcrossRuns counts k over the whole history (all runs of the connector) instead of per run.
	ScriptAcrossRuns bool
	GateOpen         bool
	GateTeardown     bool
	Faults           bool
	// LateOpen names the Open gate "~late:<name>.open": it sorts after every other alternative, so by default the
	// destination stays in Open until nothing else can run (exploration order only; the space is unchanged).
	LateOpen bool
	// Reject, when non-nil, FORCES the answer of every ack gate: exactly the records listed here ("<src>:<idx>" for an
	// unsplit record, "<src>:<idx>:<k>/<n>" for piece k of n) are rejected, all others confirmed (input enumeration
	// rather than schedule enumeration, used by C08).
	Reject map[string]bool
	// ChunkAcks makes the forced answers of Reject arrive record by record (one ack response per record).
	ChunkAcks bool
}

// Dest is a scripted SDK-level destination plugin.
type Dest struct {
	W *verifkit.World
	S DestScript

	mu    sync.Mutex
	flush chan struct{} // Stop asks the running stream to flush acks it deferred ("defer" answer = batching destination)
	reqs  int           // write requests seen over all runs (ScriptAcrossRuns)
}

func (d *Dest) Configure(context.Context, pconnector.DestinationConfigureRequest) (pconnector.DestinationConfigureResponse, error) {
	return pconnector.DestinationConfigureResponse{}, nil
}

func (d *Dest) Open(ctx context.Context, _ pconnector.DestinationOpenRequest) (pconnector.DestinationOpenResponse, error) {
	if d.S.GateOpen {
		menu := []string{"ok"}
		if d.S.Faults {
			menu = append(menu, "err")
		}
		gate := d.S.Name + ".open"
		if d.S.LateOpen {
			gate = "~late:" + gate
		}
		if a := d.W.Gate(ctx, gate, menu...); a != "ok" {
			d.W.Log(d.S.Name, "openfail", -1, a)
			return pconnector.DestinationOpenResponse{}, cerrors.Errorf("%s: open failed (%s)", d.S.Name, a)
		}
	}
	d.W.Log(d.S.Name, "open", -1, "")
	return pconnector.DestinationOpenResponse{}, nil
}

func (d *Dest) Run(ctx context.Context, stream pconnector.DestinationRunStream) error {
	srv := stream.Server()
	queue := make(chan []opencdc.Record, 4096)
	go func() {
		defer close(queue)
		for {
			req, err := srv.Recv()
			if err != nil {
				return
			}
			for _, r := range req.Records {
				src, i, dlq, piece := Ident(r)
				arg := src
				if dlq {
					arg += "|dlq|" + r.Metadata["conduit.dlq.nack.node.id"] + "|" + r.Metadata["conduit.dlq.nack.error"]
				}
				if piece != "" {
					arg += "|piece=" + piece
				}
				if g := r.Metadata["verif.gen"]; g != "" {
					arg += "|gen=" + g
				}
				if pth := r.Metadata["verif.path"]; pth != "" && !dlq {
					arg += "|path=" + pth
				}
				d.W.Log(d.S.Name, "recv", i, arg)
			}
			select {
			case queue <- req.Records:
			case <-ctx.Done():
				return
			}
		}
	}()
	k := 0
	flush := make(chan struct{}, 1)
	d.mu.Lock()
	d.flush = flush
	d.mu.Unlock()
	var held []pconnector.DestinationRunResponseAck // acks of earlier requests the destination has not sent yet
	var heldLog []func()
	for {
		var recs []opencdc.Record
		var ok bool
		select {
		case recs, ok = <-queue:
			if !ok {
				<-ctx.Done()
				return ctx.Err()
			}
		case <-flush:
			if len(held) > 0 {
				for _, f := range heldLog {
					f()
				}
				if err := srv.Send(pconnector.DestinationRunResponse{Acks: held}); err != nil {
					return err
				}
				held, heldLog = nil, nil
			}
			continue
		case <-ctx.Done():
			return ctx.Err()
		}
		menu := d.S.AckMenu
		if d.S.MenuFor != nil {
			menu = d.S.MenuFor(k, len(recs))
			if d.S.ScriptAcrossRuns {
				d.mu.Lock()
				menu = d.S.MenuFor(d.reqs, len(recs))
				d.reqs++
				d.mu.Unlock()
			}
		}
		if len(menu) == 0 {
			menu = []string{"ok"}
		}
		if d.S.Reject != nil {
			bits := make([]byte, len(recs))
			any := false
			for i, r := range recs {
				src, idx, _, piece := Ident(r)
				key := src + ":" + strconv.Itoa(idx)
				if piece != "" {
					key += ":" + piece
				}
				bits[i] = '0'
				if d.S.Reject[key] {
					bits[i], any = '1', true
				}
			}
			menu = []string{"ok"}
			if any {
				menu = []string{"n:" + string(bits)}
			}
			if d.S.ChunkAcks {
				menu = []string{"k:" + string(bits)}
			}
		}
		k++
		a := d.W.Gate(ctx, d.S.Name+".ack", menu...)
		if a == verifkit.AnsCtx || a == verifkit.AnsAbort {
			return ctx.Err()
		}
		if a == "err" {
			d.W.Log(d.S.Name, "runerr", -1, "")
			return cerrors.Errorf("%s: destination failed", d.S.Name)
		}
		if a == "skip" {
			// the plugin never confirms this write, and says nothing now: acks it holds back for earlier writes stay held, so
			// a later response can confirm the writes around this one ([ack(k-1), ack(k+1)])
			continue
		}
		resp := pconnector.DestinationRunResponse{Acks: held}
		logs := heldLog
		if a != "defer" && a != "defernack" {
			held, heldLog = nil, nil
		}
		for i, r := range recs {
			src, idx, _, piece := Ident(r)
			ack := pconnector.DestinationRunResponseAck{Position: r.Position}
			rejected := a == "nack" || a == "defernack" || ((strings.HasPrefix(a, "n:") || strings.HasPrefix(a, "k:") || strings.HasPrefix(a, "h:")) && i < len(a)-2 && a[2+i] == '1')
			if rejected {
				ack.Error = "rejected by " + d.S.Name
			}
			arg := src
			if piece != "" {
				arg += "|piece=" + piece
			}
			switch a {
			case "wrongpos":
				ack.Position = opencdc.Position("bogus")
			case "none", "empty":
				continue
			}
			kind := "ack"
			if rejected {
				kind = "nack"
			}
			logs = append(logs, func() { d.W.Log(d.S.Name, kind, idx, arg) })
			resp.Acks = append(resp.Acks, ack)
		}
		if a == "defer" || a == "defernack" { // a batching destination: confirm this write together with a later one (or on Stop)
			held, heldLog = resp.Acks, logs
			// like the SDK's batching write strategy: a partial batch is flushed after the batch delay (1s, virtual)
			time.AfterFunc(time.Second, func() {
				select {
				case flush <- struct{}{}:
				default:
				}
			})
			continue
		}
		for _, f := range logs {
			f()
		}
		switch a {
		case "extra":
			resp.Acks = append(resp.Acks, pconnector.DestinationRunResponseAck{Position: opencdc.Position("p999")})
		case "dup":
			if len(resp.Acks) > 0 {
				resp.Acks = append(resp.Acks, resp.Acks[len(resp.Acks)-1])
			}
		case "reorder":
			for i, j := 0, len(resp.Acks)-1; i < j; i, j = i+1, j-1 {
				resp.Acks[i], resp.Acks[j] = resp.Acks[j], resp.Acks[i]
			}
		}
		if a == "none" {
			continue
		}
		if a == "empty" {
			// one response without any ack per record of the write: the plugin answers, but confirms nothing
			for range recs {
				if err := srv.Send(pconnector.DestinationRunResponse{}); err != nil {
					return err
				}
			}
			continue
		}
		if strings.HasPrefix(a, "k:") { // the write is confirmed record by record: one response per record ("k:<reject bits>")
			for i := range resp.Acks {
				if err := srv.Send(pconnector.DestinationRunResponse{Acks: resp.Acks[i : i+1]}); err != nil {
					return err
				}
			}
			continue
		}
		if strings.HasPrefix(a, "h:") && len(resp.Acks) >= 2 { // ... or in two responses, first half / second half
			h := len(resp.Acks) / 2
			if err := srv.Send(pconnector.DestinationRunResponse{Acks: resp.Acks[:h]}); err != nil {
				return err
			}
			if err := srv.Send(pconnector.DestinationRunResponse{Acks: resp.Acks[h:]}); err != nil {
				return err
			}
			continue
		}
		if a == "chunkextra" && len(resp.Acks) >= 2 {
			// the write is confirmed in two chunks, the second one carrying one ack too many
			first := pconnector.DestinationRunResponse{Acks: resp.Acks[:1]}
			second := pconnector.DestinationRunResponse{Acks: append(append([]pconnector.DestinationRunResponseAck{}, resp.Acks[1:]...), resp.Acks[len(resp.Acks)-1])}
			if err := srv.Send(first); err != nil {
				return err
			}
			if err := srv.Send(second); err != nil {
				return err
			}
			continue
		}
		if err := srv.Send(resp); err != nil {
			return err
		}
	}
}

func (d *Dest) Stop(_ context.Context, req pconnector.DestinationStopRequest) (pconnector.DestinationStopResponse, error) {
	d.W.Log(d.S.Name, "stop", PosIndex(req.LastPosition), "")
	d.mu.Lock()
	if d.flush != nil {
		select {
		case d.flush <- struct{}{}:
		default:
		}
	}
	d.mu.Unlock()
	return pconnector.DestinationStopResponse{}, nil
}

func (d *Dest) Teardown(ctx context.Context, _ pconnector.DestinationTeardownRequest) (pconnector.DestinationTeardownResponse, error) {
	if d.S.GateTeardown {
		menu := []string{"ok"}
		if d.S.Faults {
			menu = append(menu, "err")
		}
		if a := d.W.Gate(ctx, d.S.Name+".teardown", menu...); a != "ok" {
			d.W.Log(d.S.Name, "teardown", -1, a)
			return pconnector.DestinationTeardownResponse{}, cerrors.Errorf("%s: teardown failed (%s)", d.S.Name, a)
		}
	}
	d.W.Log(d.S.Name, "teardown", -1, "")
	if err := ctx.Err(); err != nil {
		return pconnector.DestinationTeardownResponse{}, err // see Source.Teardown
	}
	return pconnector.DestinationTeardownResponse{}, nil
}

func (d *Dest) LifecycleOnCreated(context.Context, pconnector.DestinationLifecycleOnCreatedRequest) (pconnector.DestinationLifecycleOnCreatedResponse, error) {
	return pconnector.DestinationLifecycleOnCreatedResponse{}, nil
}

func (d *Dest) LifecycleOnUpdated(context.Context, pconnector.DestinationLifecycleOnUpdatedRequest) (pconnector.DestinationLifecycleOnUpdatedResponse, error) {
	return pconnector.DestinationLifecycleOnUpdatedResponse{}, nil
}

func (d *Dest) LifecycleOnDeleted(context.Context, pconnector.DestinationLifecycleOnDeletedRequest) (pconnector.DestinationLifecycleOnDeletedResponse, error) {
	return pconnector.DestinationLifecycleOnDeletedResponse{}, nil
}

type specifier struct{ name string }

func (s specifier) Specify(context.Context, pconnector.SpecifierSpecifyRequest) (pconnector.SpecifierSpecifyResponse, error) {
	return pconnector.SpecifierSpecifyResponse{Specification: pconnector.Specification{Name: s.name, Version: "v0.0.0"}}, nil
}

// Plugins is a connector plugin service (lifecycle.ConnectorPluginService / orchestrator's) backed by the real
// built-in dispenser over scripted plugins. Plugin names are the script names.
type Plugins struct {
	W       *verifkit.World
	Sources map[string]*Source
	Dests   map[string]*Dest
	// FailDispense: plugin name -> how many of the next NewDispenser calls for it fail (a plugin binary that cannot be
	// started / found at that moment).
	FailDispense map[string]int
	mu           sync.Mutex
}

// NewPlugins creates an empty plugin service.
func NewPlugins(w *verifkit.World) *Plugins {
	return &Plugins{W: w, Sources: map[string]*Source{}, Dests: map[string]*Dest{}}
}

// AddSource registers a scripted source under its name.
func (p *Plugins) AddSource(s SourceScript) *Source {
	src := &Source{W: p.W, S: s}
	p.Sources[s.Name] = src
	return src
}

// AddDest registers a scripted destination under its name.
func (p *Plugins) AddDest(s DestScript) *Dest {
	d := &Dest{W: p.W, S: s}
	p.Dests[s.Name] = d
	return d
}

// NewDispenser implements the ConnectorPluginService interfaces of lifecycle, lifecycle-poc and orchestrator.
func (p *Plugins) NewDispenser(logger log.CtxLogger, name string, _ string) (connectorPlugin.Dispenser, error) {
	p.mu.Lock()
	if p.FailDispense[name] > 0 {
		p.FailDispense[name]--
		p.mu.Unlock()
		p.W.Log(name, "dispensefail", -1, "")
		return nil, fmt.Errorf("verif: plugin %s cannot be dispensed right now", name)
	}
	p.mu.Unlock()
	src, hasSrc := p.Sources[name]
	dst, hasDst := p.Dests[name]
	if !hasSrc && !hasDst {
		return nil, fmt.Errorf("%w: %s", plugin.ErrPluginNotFound, name)
	}
	d := builtin.NewDispenser(plugin.FullName("builtin:"+name+"@v0.0.0"), logger,
		func() pconnector.SpecifierPlugin { return specifier{name} },
		func() pconnector.SourcePlugin {
			if src == nil {
				return nil
			}
			return src
		},
		func() pconnector.DestinationPlugin {
			if dst == nil {
				return nil
			}
			return dst
		})
	if hasSrc && src.S.AckSendFaults {
		return ackFaultDispenser{Dispenser: d, w: p.W, name: name}, nil
	}
	return d, nil
}

// ackFaultDispenser wraps the built-in dispenser: the source plugin it hands out uses the REAL in-memory stream, but
// every ack request the engine sends on it first passes the gate "<name>.acksend" (answers ok / fail).
type ackFaultDispenser struct {
	connectorPlugin.Dispenser
	w    *verifkit.World
	name string
}

func (d ackFaultDispenser) DispenseSource() (connectorPlugin.SourcePlugin, error) {
	sp, err := d.Dispenser.DispenseSource()
	if err != nil {
		return nil, err
	}
	return &ackFaultSource{SourcePlugin: sp, w: d.w, name: d.name}, nil
}

type ackFaultSource struct {
	connectorPlugin.SourcePlugin
	w    *verifkit.World
	name string
}

type ackFaultStream struct {
	pconnector.SourceRunStream
	w    *verifkit.World
	name string
}

func (s *ackFaultSource) NewStream() pconnector.SourceRunStream {
	return &ackFaultStream{SourceRunStream: s.SourcePlugin.NewStream(), w: s.w, name: s.name}
}

func (s *ackFaultSource) Run(ctx context.Context, stream pconnector.SourceRunStream) error {
	if fs, ok := stream.(*ackFaultStream); ok {
		return s.SourcePlugin.Run(ctx, fs.SourceRunStream)
	}
	return s.SourcePlugin.Run(ctx, stream)
}

func (s *ackFaultStream) Client() pconnector.SourceRunStreamClient {
	return ackFaultClient{SourceRunStreamClient: s.SourceRunStream.Client(), w: s.w, name: s.name}
}

type ackFaultClient struct {
	pconnector.SourceRunStreamClient
	w    *verifkit.World
	name string
}

func (c ackFaultClient) Send(req pconnector.SourceRunRequest) error {
	if len(req.AckPositions) > 0 {
		switch c.w.Gate(nil, c.name+".acksend", "ok", "fail") {
		case "fail":
			c.w.Log(c.name, "acksendfail", PosIndex(req.AckPositions[0]), "")
			return cerrors.New("verif: transient transport failure while sending the acknowledgment")
		case verifkit.AnsAbort:
			return cerrors.New("verif: execution over")
		}
	}
	return c.SourceRunStreamClient.Send(req)
}
