package verifkit

import (
	"context"
	"sort"
	"strings"
	"sync"
	"time"

	"github.com/conduitio/conduit-commons/database"
)

// VDB is a transactional in-memory database.DB whose commits (and, when enabled, writes) are gates of the world, and
// which takes a full snapshot after every successful commit / non-transactional write.
type VDB struct {
	commitSeq int // commits seen (CommitDelays)
	W         *World
	// GateCommits makes every transaction commit and non-transactional Set a pending event (ordering + ok/fail).
	GateCommits bool
	// LateCommits names transaction commit gates "~late:db.commit#k": they sort after every other alternative, so by
	// default a commit stays in flight until nothing else can run (exploration order only).
	LateCommits bool
	// CommitDelays makes the k-th transaction commit (0-based, counted over the life of the store) take that long (virtual
	// time) before it is presented as a pending event: a slow but responding store.
	CommitDelays []time.Duration
	// LatePuts does the same for non-transactional Set calls ("~late:db.put[<key>]#k").
	LatePuts bool
	// FaultCommits adds the "fail" answer to commit gates; FaultSets gates every Set inside a transaction with {ok, fail}.
	FaultCommits bool
	FaultSets    bool
	// FaultKeys is the universe of keys whose write inside a transaction can be made to fail (see NewTransaction).
	FaultKeys []string
	// OpHook, when set, is called for every store operation (op = "set"/"commit"/"get"/"keys"); returning an error fails it.
	// Used by the sequential (E2) harnesses to inject "the k-th store operation fails".
	OpHook func(op, key string) error
	// Describe, when set, renders the durable content after a commit; it is appended to the commit event ("keys|describe").
	Describe func(values map[string][]byte) string

	mu     sync.Mutex
	values map[string][]byte
	snaps  []Snapshot
	nOps   int
}

// Snapshot is the durable content after a successful commit.
type Snapshot struct {
	Seq    int // index into the world's event log of the commit event (-1 when no world)
	Values map[string][]byte
}

// NewVDB creates a store bound to a world (w may be nil for sequential harnesses).
func NewVDB(w *World) *VDB { return &VDB{W: w, values: map[string][]byte{}} }

// NewVDBFrom creates a store holding a copy of the given content.
func NewVDBFrom(w *World, values map[string][]byte) *VDB {
	d := NewVDB(w)
	for k, v := range values {
		d.values[k] = append([]byte(nil), v...)
	}
	return d
}

type vtxn struct {
	db      *VDB
	changes map[string][]byte
	order   []string
	done    bool
	failed  bool
	failKey string
}

type vtxnKey struct{}

func (d *VDB) txn(ctx context.Context) *vtxn {
	t, _ := database.TransactionFromContext(ctx).(*vtxn)
	if t != nil && t.db != d {
		return nil
	}
	return t
}

// Ping implements database.DB.
func (d *VDB) Ping(context.Context) error { return nil }

// Close implements database.DB.
func (d *VDB) Close() error { return nil }

// NewTransaction implements database.DB.
func (d *VDB) NewTransaction(ctx context.Context, _ bool) (database.Transaction, context.Context, error) {
	if d.OpHook != nil {
		if err := d.OpHook("begin", ""); err != nil {
			return nil, ctx, err
		}
	}
	t := &vtxn{db: d, changes: map[string][]byte{}}
	if d.FaultSets && d.W != nil && len(d.FaultKeys) > 0 {
		// The fault plan of the transaction is chosen when it begins ("the write of key K inside this transaction
		// fails"), not when the write happens: the engine writes a batch in Go map iteration order, which is random,
		// and the enumeration must not depend on it.
		menu := []string{"ok"}
		for _, k := range d.FaultKeys {
			menu = append(menu, "failset:"+k)
		}
		menu = append(menu, "failbegin") // the store cannot even begin the transaction
		a := d.W.Gate(nil, "db.tx", menu...)
		if strings.HasPrefix(a, "failset:") {
			t.failKey = strings.TrimPrefix(a, "failset:")
		}
		if a == "failbegin" {
			d.W.Log("db", "txfail", -1, "")
			return nil, ctx, errInjected
		}
	}
	return t, database.ContextWithTransaction(ctx, t), nil
}

var errInjected = injectedError("verif: injected store failure")

type injectedError string

func (e injectedError) Error() string { return string(e) }

// ErrInjected is returned by failing store operations.
func ErrInjected() error { return errInjected }

// Set implements database.DB.
func (d *VDB) Set(ctx context.Context, key string, value []byte) error {
	if d.OpHook != nil {
		if err := d.OpHook("set", key); err != nil {
			return err
		}
	}
	if t := d.txn(ctx); t != nil {
		if t.failKey != "" && t.failKey == key {
			d.W.Log("db", "setfail", -1, key)
			return errInjected
		}
		if _, ok := t.changes[key]; !ok {
			t.order = append(t.order, key)
		}
		if value == nil {
			t.changes[key] = nil
		} else {
			t.changes[key] = append([]byte(nil), value...)
		}
		return nil
	}
	if d.GateCommits && d.W != nil {
		menu := []string{"ok"}
		if d.FaultCommits {
			menu = append(menu, "fail")
		}
		gate := "db.put[" + key + "]"
		if d.LatePuts {
			gate = "~late:" + gate
		}
		if a := d.W.Gate(nil, gate, menu...); a != "ok" && a != AnsAbort {
			d.W.Log("db", "putfail", -1, key)
			return errInjected
		}
	}
	d.mu.Lock()
	if value == nil {
		delete(d.values, key)
	} else {
		d.values[key] = append([]byte(nil), value...)
	}
	d.snapshotLocked("put", key)
	d.mu.Unlock()
	return nil
}

// Get implements database.DB.
func (d *VDB) Get(ctx context.Context, key string) ([]byte, error) {
	if d.OpHook != nil {
		if err := d.OpHook("get", key); err != nil {
			return nil, err
		}
	}
	if t := d.txn(ctx); t != nil {
		if v, ok := t.changes[key]; ok {
			if v == nil {
				return nil, database.ErrKeyNotExist
			}
			return v, nil
		}
	}
	d.mu.Lock()
	defer d.mu.Unlock()
	v, ok := d.values[key]
	if !ok {
		return nil, database.ErrKeyNotExist
	}
	return append([]byte(nil), v...), nil
}

// GetKeys implements database.DB.
func (d *VDB) GetKeys(ctx context.Context, prefix string) ([]string, error) {
	if d.OpHook != nil {
		if err := d.OpHook("keys", prefix); err != nil {
			return nil, err
		}
	}
	set := map[string]bool{}
	d.mu.Lock()
	for k := range d.values {
		if strings.HasPrefix(k, prefix) {
			set[k] = true
		}
	}
	d.mu.Unlock()
	if t := d.txn(ctx); t != nil {
		for k, v := range t.changes {
			if strings.HasPrefix(k, prefix) {
				if v == nil {
					delete(set, k)
				} else {
					set[k] = true
				}
			}
		}
	}
	out := make([]string, 0, len(set))
	for k := range set {
		out = append(out, k)
	}
	sort.Strings(out)
	return out, nil
}

func (t *vtxn) Commit() error {
	d := t.db
	if t.done {
		return nil
	}
	if d.OpHook != nil {
		if err := d.OpHook("commit", strings.Join(t.order, ",")); err != nil {
			t.done = true
			return err
		}
	}
	keys := append([]string(nil), t.order...)
	sort.Strings(keys)
	if d.GateCommits && d.W != nil && len(keys) > 0 && len(d.CommitDelays) > 0 {
		d.mu.Lock()
		k := d.commitSeq
		d.commitSeq++
		d.mu.Unlock()
		if k < len(d.CommitDelays) && d.CommitDelays[k] > 0 {
			d.W.Log("db", "slowcommit", k, d.CommitDelays[k].String())
			time.Sleep(d.CommitDelays[k])
		}
	}
	if d.GateCommits && d.W != nil && len(keys) > 0 {
		menu := []string{"ok"}
		if d.FaultCommits {
			menu = append(menu, "fail")
		}
		// named by ordinal, not by key set: which connectors share a batch at start-up is decided by the Go scheduler
		// (concurrent Opens racing to the persister); the key set is in the logged event, not in the choice name
		gate := "db.commit"
		if d.LateCommits {
			gate = "~late:db.commit"
		}
		if a := d.W.Gate(nil, gate, menu...); a != "ok" && a != AnsAbort {
			t.done = true
			d.W.Log("db", "commitfail", -1, strings.Join(keys, ","))
			return errInjected
		}
	}
	t.done = true
	d.mu.Lock()
	for k, v := range t.changes {
		if v == nil {
			delete(d.values, k)
		} else {
			d.values[k] = v
		}
	}
	if len(keys) > 0 {
		d.snapshotLocked("commit", strings.Join(keys, ","))
	}
	d.mu.Unlock()
	return nil
}

func (t *vtxn) Discard() { t.done = true }

func (d *VDB) snapshotLocked(kind, keys string) {
	cp := make(map[string][]byte, len(d.values))
	for k, v := range d.values {
		cp[k] = v
	}
	seq := -1
	if d.W != nil {
		d.W.mu.Lock()
		seq = len(d.W.log)
		d.W.mu.Unlock()
	}
	d.snaps = append(d.snaps, Snapshot{Seq: seq, Values: cp})
	if d.W != nil {
		arg := keys
		if d.Describe != nil {
			arg += "|" + d.Describe(cp)
		}
		d.W.Log("db", kind, len(d.snaps)-1, arg)
	}
}

// Snapshots returns the snapshots taken so far (index = Idx of the db commit/put event).
func (d *VDB) Snapshots() []Snapshot {
	d.mu.Lock()
	defer d.mu.Unlock()
	return append([]Snapshot(nil), d.snaps...)
}

// Content returns a copy of the current durable content.
func (d *VDB) Content() map[string][]byte {
	d.mu.Lock()
	defer d.mu.Unlock()
	cp := make(map[string][]byte, len(d.values))
	for k, v := range d.values {
		cp[k] = append([]byte(nil), v...)
	}
	return cp
}
