// Package verifkit is the verification kit of /verif. It is mapped into the conduit module as the
// virtual package github.com/conduitio/conduit/pkg/verifkit by a build overlay; nothing of it is
// committed to the repository under test.
package verifkit

import (
	"crypto/sha256"
	"encoding/binary"
	"encoding/hex"
	"encoding/json"
	"fmt"
	"hash/fnv"
	"os"
	"path/filepath"
	"sort"
	"strconv"
	"strings"
	"sync"
	"time"
)

// Violation is one property violation with everything needed to replay it.
type Violation struct {
	// Key identifies the failing site/shape; known_findings.json is matched against it.
	Key string `json:"key"`
	// Text is a human readable explanation.
	Text string `json:"text"`
	// Replay is the harness-specific replay payload (named schedule, input, ...).
	Replay any `json:"replay"`
	// ReplayFile is filled in by Report.AddViolation.
	ReplayFile string `json:"replay_file"`
	// Reproduced counts how often the violation re-occurred when its replay was re-executed.
	Reproduced string `json:"reproduced,omitempty"`
}

// Report collects what one harness run (one shard of one part of one check) covered.
type Report struct {
	Property string
	Part     string
	Tier     string
	Shard    int
	NShards  int

	mu          sync.Mutex
	evaluations int64
	transitions int64
	traces      int64
	states      map[uint64]struct{}
	nontrivial  map[uint64]struct{}
	outcomes    map[string]int64
	samples     []any
	maxSamples  int
	violations  []Violation
	vioKeys     map[string]int
	caps        []string
	exhaustive  bool
	bound       map[string]any
	divergences int64
	extra       map[string]any
	assumptions []string
	start       time.Time
}

// Tier returns the tier requested through VERIF_TIER (quick by default).
func Tier() string {
	if t := os.Getenv("VERIF_TIER"); t == "thorough" {
		return t
	}
	return "quick"
}

// Thorough reports whether the thorough tier was requested.
func Thorough() bool { return Tier() == "thorough" }

// Shard returns (i, n) from VERIF_SHARD=i/n (0/1 by default).
func Shard() (int, int) {
	s := os.Getenv("VERIF_SHARD")
	if s == "" {
		return 0, 1
	}
	parts := strings.SplitN(s, "/", 2)
	if len(parts) != 2 {
		return 0, 1
	}
	i, err1 := strconv.Atoi(parts[0])
	n, err2 := strconv.Atoi(parts[1])
	if err1 != nil || err2 != nil || n < 1 || i < 0 || i >= n {
		return 0, 1
	}
	return i, n
}

// Seed returns VERIF_SEED (0 by default). The enumerated spaces never depend on it.
func Seed() int64 {
	v, _ := strconv.ParseInt(os.Getenv("VERIF_SEED"), 10, 64)
	return v
}

// Deadline returns the internal wall-clock budget of a harness part (VERIF_BUDGET_S seconds). When it
// is exceeded the part stops exploring, reports exhaustive=false and exits 0: it is never an oracle.
func Deadline(defQuick, defThorough time.Duration) time.Time {
	if v := os.Getenv("VERIF_BUDGET_S"); v != "" {
		if s, err := strconv.Atoi(v); err == nil && s > 0 {
			return time.Now().Add(time.Duration(s) * time.Second)
		}
	}
	if Thorough() {
		return time.Now().Add(defThorough)
	}
	return time.Now().Add(defQuick)
}

// NewReport creates the report of one harness part.
func NewReport(property, part string) *Report {
	i, n := Shard()
	if p := os.Getenv("VERIF_PROPERTY"); p != "" {
		property = p // one harness can serve several checks; the driver says which one is being decided
	}
	if pn := os.Getenv("VERIF_PART"); pn != "" {
		part = pn
	}
	return &Report{
		Property: property, Part: part, Tier: Tier(), Shard: i, NShards: n,
		states: map[uint64]struct{}{}, nontrivial: map[uint64]struct{}{},
		outcomes: map[string]int64{}, maxSamples: 6, vioKeys: map[string]int{},
		exhaustive: true, bound: map[string]any{}, extra: map[string]any{}, start: time.Now(),
	}
}

// Hash64 hashes a canonical string.
func Hash64(s string) uint64 {
	h := fnv.New64a()
	_, _ = h.Write([]byte(s))
	return h.Sum64()
}

// Eval counts one executed case / execution.
func (r *Report) Eval() { r.mu.Lock(); r.evaluations++; r.mu.Unlock() }

// EvalN counts n executed cases.
func (r *Report) EvalN(n int64) { r.mu.Lock(); r.evaluations += n; r.mu.Unlock() }

// Trace counts one complete trace executed on the real implementation.
func (r *Report) Trace() { r.mu.Lock(); r.traces++; r.mu.Unlock() }

// Transitions counts n transitions (choices / operations executed on the implementation).
func (r *Report) Transitions(n int64) { r.mu.Lock(); r.transitions += n; r.mu.Unlock() }

// State records a canonical state key; returns true when it was new in this process.
func (r *Report) State(key string) bool { return r.StateHash(Hash64(key)) }

// StateHash records a canonical state hash; returns true when it was new in this process.
func (r *Report) StateHash(h uint64) bool {
	r.mu.Lock()
	defer r.mu.Unlock()
	if _, ok := r.states[h]; ok {
		return false
	}
	r.states[h] = struct{}{}
	return true
}

// Nontrivial records a distinct non-trivial case by its canonical key.
func (r *Report) Nontrivial(key string) {
	h := Hash64(key)
	r.mu.Lock()
	r.nontrivial[h] = struct{}{}
	r.mu.Unlock()
}

// Outcome counts one observed outcome class (vacuity indicator: many executions, one outcome = nothing collided).
func (r *Report) Outcome(class string) {
	r.mu.Lock()
	r.outcomes[class]++
	r.mu.Unlock()
}

// Sample keeps up to a handful of actual cases for the evidence file.
func (r *Report) Sample(s any) {
	r.mu.Lock()
	if len(r.samples) < r.maxSamples {
		r.samples = append(r.samples, s)
	}
	r.mu.Unlock()
}

// Cap records that a cap (time, branch, step) was hit; the run is then not exhaustive.
func (r *Report) Cap(what string) {
	r.mu.Lock()
	r.exhaustive = false
	for _, c := range r.caps {
		if c == what {
			r.mu.Unlock()
			return
		}
	}
	r.caps = append(r.caps, what)
	r.mu.Unlock()
}

// Divergence counts one replay divergence (a named choice not enabled when replaying a prefix).
func (r *Report) Divergence() {
	r.mu.Lock()
	r.divergences++
	r.exhaustive = false
	r.mu.Unlock()
}

// Bound records a bound that was completed (e.g. "deviations": 2).
func (r *Report) Bound(name string, v any) { r.mu.Lock(); r.bound[name] = v; r.mu.Unlock() }

// Extra records a free-form coverage key.
func (r *Report) Extra(name string, v any) { r.mu.Lock(); r.extra[name] = v; r.mu.Unlock() }

// Assume records an assumption of the check.
func (r *Report) Assume(s string) {
	r.mu.Lock()
	r.assumptions = append(r.assumptions, s)
	r.mu.Unlock()
}

// Violations returns the number of distinct violation keys recorded.
func (r *Report) Violations() int { r.mu.Lock(); defer r.mu.Unlock(); return len(r.violations) }

// AddViolation records a violation (at most 3 replay artefacts are kept per key) and writes its replay artefact.
func (r *Report) AddViolation(v Violation) {
	r.mu.Lock()
	defer r.mu.Unlock()
	r.vioKeys[v.Key]++
	if r.vioKeys[v.Key] > 3 {
		return
	}
	dir := os.Getenv("VERIF_REPLAY_DIR")
	if dir == "" {
		dir = filepath.Join(os.TempDir(), "verif-replays")
	}
	dir = filepath.Join(dir, r.Property)
	_ = os.MkdirAll(dir, 0o755)
	payload := map[string]any{"property": r.Property, "part": r.Part, "key": v.Key, "text": v.Text, "replay": v.Replay}
	b, _ := json.MarshalIndent(payload, "", " ")
	sum := sha256.Sum256(b)
	v.ReplayFile = filepath.Join(dir, r.Part+"-"+hex.EncodeToString(sum[:6])+".json")
	_ = os.WriteFile(v.ReplayFile, b, 0o644)
	r.violations = append(r.violations, v)
	fmt.Printf("verif: violation property=%s key=%s replay=%s\n   %s\n", r.Property, v.Key, v.ReplayFile, strings.ReplaceAll(v.Text, "\n", "\n   "))
}

// Write writes the part file into VERIF_OUT (a directory); the driver merges parts into the evidence file.
func (r *Report) Write() error {
	r.mu.Lock()
	defer r.mu.Unlock()
	out := os.Getenv("VERIF_OUT")
	if out == "" {
		out = filepath.Join(os.TempDir(), "verif-out")
	}
	if err := os.MkdirAll(out, 0o755); err != nil {
		return err
	}
	base := fmt.Sprintf("%s.%s.%d", r.Property, r.Part, r.Shard)
	// state hashes as raw little endian uint64s so the driver can union them across shards
	hs := make([]uint64, 0, len(r.states))
	for h := range r.states {
		hs = append(hs, h)
	}
	sort.Slice(hs, func(i, j int) bool { return hs[i] < hs[j] })
	buf := make([]byte, 8*len(hs))
	for i, h := range hs {
		binary.LittleEndian.PutUint64(buf[8*i:], h)
	}
	if err := os.WriteFile(filepath.Join(out, base+".states"), buf, 0o644); err != nil {
		return err
	}
	nt := make([]uint64, 0, len(r.nontrivial))
	for h := range r.nontrivial {
		nt = append(nt, h)
	}
	buf = make([]byte, 8*len(nt))
	for i, h := range nt {
		binary.LittleEndian.PutUint64(buf[8*i:], h)
	}
	if err := os.WriteFile(filepath.Join(out, base+".nontrivial"), buf, 0o644); err != nil {
		return err
	}
	vio := r.violations
	if vio == nil {
		vio = []Violation{}
	}
	doc := map[string]any{
		"property": r.Property, "part": r.Part, "tier": r.Tier, "shard": r.Shard, "nshards": r.NShards,
		"evaluations": r.evaluations, "transitions": r.transitions, "traces": r.traces,
		"states_local": len(r.states), "outcomes": r.outcomes, "samples": r.samples,
		"violations": vio, "violation_counts": r.vioKeys, "caps_hit": r.caps, "exhaustive": r.exhaustive,
		"bounds": r.bound, "replay_divergences": r.divergences, "extra": r.extra,
		"assumptions": r.assumptions, "wall_s": time.Since(r.start).Seconds(),
	}
	b, err := json.MarshalIndent(doc, "", " ")
	if err != nil {
		return err
	}
	return os.WriteFile(filepath.Join(out, base+".json"), b, 0o644)
}
