package verifkit

import (
	"context"
	"encoding/json"
	"fmt"
	"os"
	"runtime"
	"sort"
	"strconv"
	"strings"
	"sync"
	"sync/atomic"
	"testing"
	"testing/synctest"
	"time"
)

// Control is an action of the operator/API issued by the explorer (Start, Stop, Reconfigure, ...). Do runs on its
// own goroutine inside the bubble.
type Control struct {
	Name string
	Do   func()
	// AfterPrevReturned delays enabling this control until the previous one has returned.
	AfterPrevReturned bool
	// Enabled, when set, must also hold for the control to be offered.
	Enabled  func() bool
	issued   bool
	returned atomic.Bool
	inTime   bool
}

// ReturnedInTime reports whether Do had returned when the exploration of the execution ended, i.e. BEFORE the harness
// started to wind the engine down (aborting gates, cancelling contexts, force-stopping): a call that only returns
// because of the wind-down did not return on its own.
func (c *Control) ReturnedInTime() bool { return c.inTime }

// Returned reports whether the control's Do has returned.
func (c *Control) Returned() bool { return c.returned.Load() }

// Issued reports whether the control has been issued.
func (c *Control) Issued() bool { return c.issued }

// Point is one quiescent point of an execution: the alternatives that were enabled and the one taken.
type Point struct {
	Alts   []string
	Chosen int
}

// Exec is one execution of a scenario on the real implementation inside a synctest bubble.
type Exec struct {
	W   *World
	T   *testing.T
	Ctx context.Context

	Controls []*Control
	// TickEnabled offers the "tick" alternative (let virtual time run until the next activity).
	TickEnabled bool
	// TickHorizon bounds one tick; when a tick sees no activity for this long the time dimension is exhausted.
	TickHorizon time.Duration
	// MaxTicks bounds the number of ticks in one execution.
	MaxTicks int
	// Filter, when set, can veto alternatives (e.g. restrict non-default answers to some gates).
	Filter func(alt string) bool
	// Done, when set and true at a quiescent point with no pending gate, ends the execution early.
	Done func() bool
	// Cleanup functions run (LIFO) after the exploration loop and after the world was aborted, still inside the bubble.
	cleanups []func()
	// finals run right after the exploration loop, before the world is aborted (final observations).
	finals []func()
	// LeakStacks holds the stacks of bubble goroutines (other than the root) that were still alive at the very end.
	LeakStacks string

	// Armed lists the statement-level point occurrences at which a goroutine is preempted in this execution.
	Armed      []string
	Points     []Point
	Choices    []string
	Diverged   bool
	Poisoned   bool // this schedule crashed the process in an earlier attempt; skipped
	StepCapHit bool
	Hang       string // non-empty when the bubble deadlocked / goroutines leaked
	Panic      string
	ticks      int
	timeIdle   bool
	Obs        map[string]any
	cancel     context.CancelFunc
}

// OnFinal registers a final observation (runs before the world is aborted).
func (x *Exec) OnFinal(f func()) { x.finals = append(x.finals, f) }

// bubbleStacks returns the stacks of all goroutines of the current bubble except the caller.
func bubbleStacks() string {
	buf := make([]byte, 1<<20)
	n := runtime.Stack(buf, true)
	var keep []string
	mine := ""
	for i, g := range strings.Split(string(buf[:n]), "\n\n") {
		head := g
		if k := strings.Index(g, "\n"); k >= 0 {
			head = g[:k]
		}
		b := ""
		if k := strings.Index(head, "synctest bubble "); k >= 0 {
			b = strings.TrimRight(head[k:], "]:")
		}
		if i == 0 { // the caller: remember its bubble
			mine = b
			continue
		}
		if b != "" && b == mine && !strings.Contains(g, "testing.tRunner") {
			keep = append(keep, g)
		}
	}
	return strings.Join(keep, "\n\n")
}

// OnCleanup registers a cleanup.
func (x *Exec) OnCleanup(f func()) { x.cleanups = append(x.cleanups, f) }

// AddControl registers a control action; controls are offered in registration order.
func (x *Exec) AddControl(c *Control) *Control { x.Controls = append(x.Controls, c); return c }

func (x *Exec) alternatives() []string {
	var alts []string
	pend := x.W.Pending()
	// canonical order = by name, NOT by registration time: which of two concurrently running goroutines reaches its
	// gate first is decided by the Go scheduler, and the enumeration must not depend on it.
	sort.Slice(pend, func(i, j int) bool { return pend[i].Name < pend[j].Name })
	// gates named "~~idle:..." come after everything else, even after the passage of time: by default they are granted
	// only when no timer is left to fire (an environment that stays quiet for as long as the engine has anything scheduled)
	var idle []PendingGate
	busy := pend[:0:0]
	for _, p := range pend {
		if strings.HasPrefix(p.Name, "~~idle:") {
			idle = append(idle, p)
		} else {
			busy = append(busy, p)
		}
	}
	pend = busy
	for _, p := range pend {
		alts = append(alts, "g:"+p.Name+"="+p.Menu[0])
	}
	for _, p := range pend {
		for _, a := range p.Menu[1:] {
			alts = append(alts, "g:"+p.Name+"="+a)
		}
	}
	for i, c := range x.Controls {
		if c.issued {
			continue
		}
		ok := true
		if c.AfterPrevReturned && i > 0 && !x.Controls[i-1].Returned() {
			ok = false
		}
		if ok && c.Enabled != nil && !c.Enabled() {
			ok = false
		}
		if ok {
			alts = append(alts, "ctl:"+c.Name)
		}
		break // one control at a time, in order
	}
	// a preempted goroutine ("~pt:" gate) is an ordering choice, not a delay: virtual time does not advance while one is
	// parked (otherwise every timing bound of the engine could be broken by the explorer itself)
	parked := false
	for _, p := range pend {
		if strings.HasPrefix(p.Name, "~pt:") {
			parked = true
		}
	}
	if x.TickEnabled && !x.timeIdle && x.ticks < x.MaxTicks && !parked {
		alts = append(alts, "tick")
	}
	for _, p := range idle {
		for _, a := range p.Menu {
			alts = append(alts, "g:"+p.Name+"="+a)
		}
	}
	if x.Filter != nil {
		out := alts[:0]
		for _, a := range alts {
			if x.Filter(a) {
				out = append(out, a)
			}
		}
		alts = out
	}
	return alts
}

func (x *Exec) apply(alt string) {
	if alt != "tick" {
		x.timeIdle = false // new activity may arm new timers
	}
	switch {
	case strings.HasPrefix(alt, "g:"):
		rest := alt[2:]
		i := strings.LastIndex(rest, "=")
		x.W.Grant(rest[:i], rest[i+1:])
	case strings.HasPrefix(alt, "ctl:"):
		name := alt[4:]
		for _, c := range x.Controls {
			if c.Name == name && !c.issued {
				c.issued = true
				c := c
				x.W.Log("ctl", "call", -1, c.Name)
				go func() {
					c.Do()
					c.returned.Store(true)
					x.W.Log("ctl", "ret", -1, c.Name)
				}()
				break
			}
		}
	case alt == "tick":
		x.ticks++
		x.W.DrainWake()
		timer := time.NewTimer(x.TickHorizon)
		select {
		case <-x.W.Wake():
			timer.Stop()
		case <-timer.C:
			x.timeIdle = true
		}
	}
}

// Scenario is a driver + oracle for the explorer.
type Scenario struct {
	Name string
	// Params identify the scenario instance in replay files.
	Params any
	// Setup builds the real engine inside the bubble and registers controls. It must not block on gates itself.
	Setup func(x *Exec)
	// Check evaluates the oracle on the finished execution.
	Check func(x *Exec) []Violation
	// Outcome classifies the finished execution (vacuity indicator). Optional.
	Outcome func(x *Exec) string
	// PointFiles switches preemptive mode on: the build instruments the files listed in the check's part with
	// statement-level points, and the explorer additionally preempts one goroutine at every point occurrence.
	PointFiles bool
}

// Explorer is a stateless depth-first explorer by replay with an iterated deviation bound (CHESS shape): the default
// choice at every quiescent point is alternative 0; taking any other alternative costs one deviation.
type Explorer struct {
	T        *testing.T
	Rep      *Report
	Scn      Scenario
	MaxBound int
	MaxSteps int
	Deadline time.Time
	// Confirm re-executes a violating schedule this many times before reporting it.
	Confirm int
	// PreemptBound is the deviation budget explored around each single preemption (default MaxBound-1).
	PreemptBound *int
	// MaxPointOccurrence, when > 0, only preempts at the first so many occurrences of each site.
	MaxPointOccurrence int
	// SiteWide arms whole sites ("<site>#*": every goroutine reaching the site parks there) instead of single occurrences.
	SiteWide bool
	// CandidateBound > 0 also collects preemption candidates from every unarmed schedule with up to that many deviations
	// (default: the occurrences of the default schedule only).
	CandidateBound int
	// PointFilter, when set, restricts the preemption sweep to the point occurrences it accepts.
	PointFilter func(occurrence string) bool

	execs       int64
	stopped     bool
	shard, n    int
	level1      int
	seenVio     map[string]int
	sampled     int
	lastOutcome string
	armed       []string
	collect     map[string]bool
}

var watchdogArmed atomic.Int64 // unix nanos of the start of the running execution (0 = none)

func init() {
	go func() { // real-time watchdog outside any bubble: a wedged synctest.Wait would otherwise hang silently
		for {
			time.Sleep(2 * time.Second)
			s := watchdogArmed.Load()
			if s != 0 && time.Since(time.Unix(0, s)) > 120*time.Second {
				buf := make([]byte, 1<<20)
				n := runtime.Stack(buf, true)
				fmt.Fprintf(os.Stderr, "verif: WATCHDOG: one execution ran for more than 120s of real time (harness wedged)\n%s\n", buf[:n])
				os.Exit(3)
			}
		}
	}()
}

var (
	poisonOnce sync.Once
	poisoned   map[string]bool
)

func poisonKey(scenario string, prefix []string) string {
	return scenario + "|" + strings.Join(prefix, " ")
}

// loadPoison reads the schedules that crashed the process in an earlier attempt of this shard (engine panic): they are
// reported by the driver and skipped here so that the rest of the space still gets explored.
func loadPoison() {
	poisoned = map[string]bool{}
	path := os.Getenv("VERIF_POISON")
	if path == "" {
		return
	}
	b, err := os.ReadFile(path)
	if err != nil {
		return
	}
	var list []struct {
		Scenario string   `json:"scenario"`
		Prefix   []string `json:"prefix"`
	}
	if json.Unmarshal(b, &list) == nil {
		for _, p := range list {
			poisoned[poisonKey(p.Scenario, p.Prefix)] = true
		}
	}
}

func (e *Explorer) journal(prefix []string) {
	out := os.Getenv("VERIF_OUT")
	if out == "" {
		return
	}
	b, _ := json.Marshal(map[string]any{"scenario": e.Scn.Name, "params": e.Scn.Params, "prefix": prefix})
	_ = os.WriteFile(fmt.Sprintf("%s/%s.%s.%d.journal", out, e.Rep.Property, e.Rep.Part, e.Rep.Shard), b, 0o644)
}

// RunOnce executes the scenario once following prefix (named choices), then alternative 0 everywhere.
func (e *Explorer) RunOnce(prefix []string) *Exec {
	x := &Exec{T: e.T, TickHorizon: time.Hour, MaxTicks: 64, Obs: map[string]any{}}
	poisonOnce.Do(loadPoison)
	if poisoned[poisonKey(e.Scn.Name, prefix)] {
		x.Diverged = true
		x.Poisoned = true
		x.W = NewWorld()
		return x
	}
	e.journal(prefix)
	maxSteps := e.MaxSteps
	if maxSteps == 0 {
		maxSteps = 400
	}
	watchdogArmed.Store(time.Now().UnixNano())
	defer watchdogArmed.Store(0)
	func() {
		defer func() {
			if r := recover(); r != nil {
				msg := fmt.Sprint(r)
				if strings.Contains(msg, "deadlock") {
					x.Hang = msg
				} else {
					x.Panic = msg
				}
			}
		}()
		synctest.Test(e.T, func(t *testing.T) {
			x.T = t
			x.W = NewWorld()
			if e.Scn.PointFiles {
				x.W.EnablePoints(e.armed)
				x.Armed = e.armed
				curWorld.Store(x.W)
				defer curWorld.Store(nil)
			}
			ctx, cancel := context.WithCancel(context.Background())
			x.Ctx, x.cancel = ctx, cancel
			e.Scn.Setup(x)
			for step := 0; ; step++ {
				synctest.Wait()
				e.Rep.StateHash(x.W.StateHash())
				alts := x.alternatives()
				if len(alts) == 0 {
					break
				}
				if len(x.W.Pending()) == 0 && x.Done != nil && x.Done() {
					break
				}
				if step >= maxSteps {
					x.StepCapHit = true
					break
				}
				choice := 0
				if step < len(prefix) {
					choice = -1
					for i, a := range alts {
						if a == prefix[step] {
							choice = i
							break
						}
					}
					if choice < 0 {
						x.Diverged = true
						x.Obs["divergence"] = fmt.Sprintf("step %d: %q not enabled among %v", step, prefix[step], alts)
						if os.Getenv("VERIF_DEBUG_STACKS") != "" {
							fmt.Printf("---- goroutines of the bubble at the divergence ----\n%s\n", bubbleStacks())
						}
						break
					}
				}
				x.Points = append(x.Points, Point{Alts: alts, Chosen: choice})
				x.Choices = append(x.Choices, alts[choice])
				x.W.DrainWake()
				x.apply(alts[choice])
			}
			synctest.Wait()
			if os.Getenv("VERIF_DEBUG_STACKS") == "end" {
				fmt.Printf("---- goroutines of the bubble when the exploration of this execution ended ----\n%s\n", bubbleStacks())
			}
			for _, c := range x.Controls {
				c.inTime = c.Returned()
			}
			for _, f := range x.finals {
				f()
			}
			x.W.Abort()
			synctest.Wait()
			for i := len(x.cleanups) - 1; i >= 0; i-- {
				x.cleanups[i]()
				synctest.Wait()
			}
			cancel()
			synctest.Wait()
			x.LeakStacks = bubbleStacks()
		})
	}()
	return x
}

func cost(points []Point, upto int) int {
	c := 0
	for i := 0; i < upto && i < len(points); i++ {
		if points[i].Chosen != 0 {
			c++
		}
	}
	return c
}

// Explore runs the iterated-bound DFS. It returns the deviation bound that was completed (-1 if not even 0).
func (e *Explorer) Explore() int {
	e.shard, e.n = e.Rep.Shard, e.Rep.NShards
	if e.n < 1 {
		e.n = 1
	}
	if e.seenVio == nil {
		e.seenVio = map[string]int{}
	}
	if e.Confirm == 0 {
		e.Confirm = 5
	}
	if rp := os.Getenv("VERIF_REPLAY"); rp != "" {
		e.replayFile(rp)
		return -1
	}
	completed := -1
	for b := 0; b <= e.MaxBound; b++ {
		e.level1 = 0
		e.stopped = false
		e.dfs(nil, b)
		if e.stopped {
			e.Rep.Cap(fmt.Sprintf("%s: wall-clock budget reached while exploring deviation bound %d (bound %d completed)", e.Scn.Name, b, completed))
			break
		}
		completed = b
	}
	e.Rep.Bound(e.Scn.Name+".deviations_completed", completed)
	if e.Scn.PointFiles && !e.stopped {
		e.preemptionSweep()
	}
	return completed
}

func (e *Explorer) dfs(prefix []string, bound int) {
	if e.stopped {
		return
	}
	if !e.Deadline.IsZero() && time.Now().After(e.Deadline) {
		e.stopped = true
		return
	}
	x := e.RunOnce(prefix)
	if x.Poisoned {
		e.Rep.Cap(e.Scn.Name + ": a schedule that crashed the process was skipped (reported by the driver as engine-panic)")
		return
	}
	if x.Diverged {
		e.Rep.Divergence()
		e.Rep.Extra("last_divergence", fmt.Sprintf("%s: %v (prefix %v)", e.Scn.Name, x.Obs["divergence"], prefix))
		return
	}
	c := cost(x.Points, len(x.Points))
	if e.collect != nil {
		// candidate collection pass of the preemption sweep: remember the point occurrences, do not count the execution
		for _, pt := range x.W.PointsSeen() {
			e.collect[pt] = true
		}
	} else if c == bound && (c > 0 || e.shard == 0) {
		// every execution is generated once per bound iteration; count and check it in the iteration of its own cost
		e.account(x)
	}
	for i := len(prefix); i < len(x.Points); i++ {
		before := cost(x.Points, i)
		if before+1 > bound {
			break
		}
		for alt := 1; alt < len(x.Points[i].Alts); alt++ {
			if before == 0 {
				// this child fixes the first deviation of its whole subtree: shard on it
				e.level1++
				if e.level1%e.n != e.shard {
					continue
				}
			}
			child := append(append([]string{}, x.Choices[:i]...), x.Points[i].Alts[alt])
			e.dfs(child, bound)
			if e.stopped {
				return
			}
		}
	}
}

func (e *Explorer) account(x *Exec) {
	e.execs++
	e.Rep.Eval()
	e.Rep.Trace()
	e.Rep.Transitions(int64(len(x.Points)))
	if x.StepCapHit {
		e.Rep.Cap(e.Scn.Name + ": step cap hit in at least one execution")
	}
	out := "done"
	if e.Scn.Outcome != nil {
		out = e.Scn.Outcome(x)
	}
	e.Rep.Outcome(e.Scn.Name + ":" + out)
	if e.sampled < 2 || (out != e.lastOutcome && e.sampled < 5) {
		e.sampled++
		e.lastOutcome = out
		evs := x.W.Events()
		strs := make([]string, 0, len(evs))
		for _, ev := range evs {
			strs = append(strs, ev.String())
		}
		e.Rep.Sample(map[string]any{"scenario": e.Scn.Name, "schedule": x.Choices, "outcome": out, "event_log": strs})
	}
	vios := e.check(x)
	for _, v := range vios {
		e.seenVio[v.Key]++
		if e.seenVio[v.Key] > 2 {
			e.Rep.AddViolation(v) // counted, not stored beyond the cap
			continue
		}
		// confirm: the same schedule must fail every time
		rep := 0
		for k := 0; k < e.Confirm; k++ {
			y := e.RunOnce(x.Choices)
			if y.Diverged {
				continue
			}
			for _, w := range e.check(y) {
				if w.Key == v.Key {
					rep++
					break
				}
			}
		}
		v.Reproduced = fmt.Sprintf("%d/%d", rep, e.Confirm)
		if rep == 0 {
			e.Rep.Cap(fmt.Sprintf("%s: a violation (%s) did not reproduce when its schedule was replayed; not reported", e.Scn.Name, v.Key))
			e.Rep.Extra("unreproduced_"+v.Key, v.Text)
			continue
		}
		v.Replay = map[string]any{"scenario": e.Scn.Name, "params": e.Scn.Params, "schedule": x.Choices, "reproduced": v.Reproduced, "preempt_at": x.Armed}
		e.Rep.AddViolation(v)
	}
}

func (e *Explorer) check(x *Exec) []Violation {
	var vios []Violation
	vios = append(vios, x.W.Flagged()...)
	if e.Scn.Check != nil {
		vios = append(vios, e.Scn.Check(x)...)
	}
	for i := range vios {
		if !strings.Contains(vios[i].Text, "event log:") {
			vios[i].Text += "\nschedule: " + strings.Join(x.Choices, " ") + "\nevent log:\n" + FormatLog(x.W.Events())
		}
	}
	return vios
}

func (e *Explorer) replayFile(path string) {
	b, err := os.ReadFile(path)
	if err != nil {
		e.T.Fatalf("replay: %v", err)
	}
	var doc struct {
		Replay struct {
			Scenario  string   `json:"scenario"`
			Schedule  []string `json:"schedule"`
			PreemptAt []string `json:"preempt_at"`
		} `json:"replay"`
	}
	if err := json.Unmarshal(b, &doc); err != nil {
		e.T.Fatalf("replay: %v", err)
	}
	if doc.Replay.Scenario != e.Scn.Name {
		return
	}
	e.armed = doc.Replay.PreemptAt
	x := e.RunOnce(doc.Replay.Schedule)
	e.Rep.Eval()
	e.Rep.Trace()
	e.Rep.Transitions(int64(len(x.Points)))
	fmt.Printf("replay of %s: schedule %v\n%s", e.Scn.Name, x.Choices, FormatLog(x.W.Events()))
	if x.Diverged {
		fmt.Printf("replay diverged: %v\n", x.Obs["divergence"])
		e.Rep.Divergence()
		return
	}
	for _, v := range e.check(x) {
		v.Replay = map[string]any{"scenario": e.Scn.Name, "params": e.Scn.Params, "schedule": x.Choices}
		e.Rep.AddViolation(v)
	}
}

// preemptionSweep: for every statement-level point occurrence hit by the default execution, one goroutine is preempted
// exactly there (1 preemption) and the environment schedule is explored around it with the remaining deviation budget.
func (e *Explorer) preemptionSweep() {
	e.armed = nil
	root := e.RunOnce(nil)
	cands := root.W.PointsSeen()
	if e.CandidateBound > 0 {
		// also preempt at occurrences that only non-default schedules reach (error paths): union over the unarmed tree
		e.collect = map[string]bool{}
		saveShard, saveN := e.shard, e.n
		e.shard, e.n = 0, 1
		for b := 1; b <= e.CandidateBound && !e.stopped; b++ {
			e.level1 = 0
			e.dfs(nil, b)
		}
		e.shard, e.n = saveShard, saveN
		inRoot := map[string]bool{}
		for _, c := range cands {
			inRoot[c] = true
		}
		var extra []string
		for c := range e.collect {
			if !inRoot[c] {
				extra = append(extra, c)
			}
		}
		sort.Strings(extra)
		cands = append(cands, extra...)
		e.collect = nil
		e.Rep.Bound(e.Scn.Name+".preemption_candidates_from_deviations", e.CandidateBound)
	}
	if e.SiteWide {
		// hold EVERY goroutine that reaches the site (one candidate per site): independent of which goroutine gets there
		// first, hence reproducible where several goroutines run the same code (e.g. one closure per pipeline node)
		var sites []string
		seenSite := map[string]bool{}
		for _, c := range cands {
			if k := strings.LastIndex(c, "#"); k >= 0 && !seenSite[c[:k]] {
				seenSite[c[:k]] = true
				sites = append(sites, c[:k]+"#*")
			}
		}
		cands = sites
	}
	seen := map[string]bool{}
	done := 0
	budget := e.MaxBound - 1
	if budget < 0 {
		budget = 0
	}
	if e.PreemptBound != nil {
		budget = *e.PreemptBound
	}
	for ci, c := range cands {
		if seen[c] {
			continue
		}
		seen[c] = true
		if k := strings.LastIndex(c, "#"); k >= 0 && e.MaxPointOccurrence > 0 && !e.SiteWide {
			if n, err := strconv.Atoi(c[k+1:]); err == nil && n >= e.MaxPointOccurrence {
				continue
			}
		}
		if e.PointFilter != nil && !e.PointFilter(c) {
			continue
		}
		if ci%e.n != e.shard {
			continue
		}
		e.armed = []string{c}
		for b := 0; b <= budget; b++ {
			e.level1 = 0
			e.stopped = false
			saveShard, saveN := e.shard, e.n
			e.shard, e.n = 0, 1 // the sweep is already sharded by candidate
			e.dfs(nil, b)
			e.shard, e.n = saveShard, saveN
			if e.stopped {
				e.Rep.Cap(fmt.Sprintf("%s: wall-clock budget reached in the preemption sweep after %d of %d point occurrences", e.Scn.Name, done, len(cands)))
				e.armed = nil
				return
			}
		}
		done++
	}
	e.armed = nil
	e.Rep.Bound(e.Scn.Name+".preemption_points_swept", len(seen))
	e.Rep.Bound(e.Scn.Name+".preemption_bound", 1)
}
