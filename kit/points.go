package verifkit

import (
	"fmt"
	"sync/atomic"
)

// Statement-level scheduling points (preemptive mode). The overlay generator (lib/pointgen) inserts a call of Point
// before every statement of the listed engine files. Outside an execution, or when the scenario did not switch points
// on, Point is one atomic load. Inside one, every hit is counted per site ("<file>:<line>#k"); a hit that the explorer
// ARMED parks its goroutine as the pending event "~pt:<file>:<line>#k": the goroutine is preempted right there, inside
// whatever critical section it is in, and resumes when the explorer grants the event (by default only after everything
// else that can run has run - the name sorts last).

var curWorld atomic.Pointer[World]

// SchedPoint is called by instrumented engine code.
func SchedPoint(site string) {
	w := curWorld.Load()
	if w == nil {
		return
	}
	w.pointHit(site)
}

func (w *World) pointHit(site string) {
	w.mu.Lock()
	if w.aborted || !w.pointsOn {
		w.mu.Unlock()
		return
	}
	k := w.pointCount[site]
	w.pointCount[site] = k + 1
	name := fmt.Sprintf("%s#%d", site, k)
	if len(w.pointsSeen) < 4000 {
		w.pointsSeen = append(w.pointsSeen, name)
	}
	armed := w.armed[name] || w.armed[site+"#*"] // "<site>#*": every goroutine that reaches the site is held there
	w.mu.Unlock()
	if armed {
		w.Log("pt", "preempted", -1, name)
		w.Gate(nil, "~pt:"+name, "go")
	}
}

// EnablePoints switches statement-level points on for this execution and arms the given occurrences.
func (w *World) EnablePoints(armed []string) {
	w.mu.Lock()
	w.pointsOn = true
	w.pointCount = map[string]int{}
	w.armed = map[string]bool{}
	for _, a := range armed {
		w.armed[a] = true
	}
	w.mu.Unlock()
}

// PointsSeen returns the point occurrences hit so far, in order.
func (w *World) PointsSeen() []string {
	w.mu.Lock()
	defer w.mu.Unlock()
	return append([]string(nil), w.pointsSeen...)
}
