#!/bin/sh
# Builds every check's harness binaries once so the Go build cache is warm. Offline; uses only files on disk.
cd "$(dirname "$0")" || exit 1
rc=0
for id in $(python3 -c "import sys; sys.path.insert(0,'lib'); from checks import CHECKS; print(' '.join(sorted(CHECKS)))"); do
  ./check "$id" quick --build-only || rc=1
done
exit $rc
