//go:build verif

// Package verifapi: C14 - explicit-state BFS over the REAL orchestrator + pipeline/connector/processor services over
// the fault-injecting store. A state is the operation history that reaches it; a successor is fresh real services +
// replay + one more operation (optionally with "the k-th store operation of this call fails").
package verifapi

import (
	"context"
	"encoding/json"
	"fmt"
	"os"
	"regexp"
	"sort"
	"strings"
	"testing"
	"time"

	"github.com/conduitio/conduit-connector-protocol/pconnector"
	sdk "github.com/conduitio/conduit-processor-sdk"
	"github.com/conduitio/conduit/pkg/connector"
	"github.com/conduitio/conduit/pkg/foundation/log"
	"github.com/conduitio/conduit/pkg/orchestrator"
	"github.com/conduitio/conduit/pkg/pipeline"
	"github.com/conduitio/conduit/pkg/processor"
	"github.com/conduitio/conduit/pkg/verifkit"
	"github.com/conduitio/conduit/pkg/verifkit/fakes"
)

// ---- the system under test -------------------------------------------------------------------------------------

type connPlugins struct{ *fakes.Plugins }

func (connPlugins) List(context.Context) (map[string]pconnector.Specification, error) {
	return nil, nil
}
func (connPlugins) ValidateSourceConfig(_ context.Context, _ string, s map[string]string) error {
	if s["invalid"] != "" {
		return fmt.Errorf("invalid source config")
	}
	return nil
}
func (connPlugins) ValidateDestinationConfig(_ context.Context, _ string, s map[string]string) error {
	if s["invalid"] != "" {
		return fmt.Errorf("invalid destination config")
	}
	return nil
}

type procPlugins struct{}

func (procPlugins) List(context.Context) (map[string]sdk.Specification, error) { return nil, nil }
func (procPlugins) RegisterStandalonePlugin(context.Context, string) (string, error) {
	return "", nil
}

// fakeLifecycle marks pipelines running / stopped through the real pipeline service (status + store write).
type fakeLifecycle struct{ pl *pipeline.Service }

func (f fakeLifecycle) Start(ctx context.Context, id string) error {
	return f.pl.UpdateStatus(ctx, id, pipeline.StatusRunning, "")
}
func (f fakeLifecycle) Stop(ctx context.Context, id string, _ bool) error {
	return f.pl.UpdateStatus(ctx, id, pipeline.StatusUserStopped, "")
}

type sys struct {
	db    *verifkit.VDB
	pl    *pipeline.Service
	conn  *connector.Service
	proc  *processor.Service
	orc   *orchestrator.Orchestrator
	ids   []string // entity ids in creation order ("P:<uuid>", "C:<uuid>", "R:<uuid>")
	ops   int      // store operations seen during the current call
	failK int      // fail the failK-th store operation of the current call (0 = none)
}

func newSys(values map[string][]byte) (*sys, error) {
	ctx := context.Background()
	s := &sys{}
	if values == nil {
		s.db = verifkit.NewVDB(nil)
	} else {
		s.db = verifkit.NewVDBFrom(nil, values)
	}
	w := verifkit.NewWorld()
	plugins := fakes.NewPlugins(w)
	plugins.AddSource(fakes.SourceScript{Name: "src"})
	plugins.AddDest(fakes.DestScript{Name: "dst"})
	procs := fakes.NewProcs(w)
	procs.Add(fakes.ProcScript{Name: "proc"})
	procs.Add(fakes.ProcScript{Name: "proc2"})
	logger := log.Nop()
	s.pl = pipeline.NewService(logger, s.db)
	s.conn = connector.NewService(logger, s.db, connector.NewPersister(logger, s.db, time.Hour, 1000000))
	s.proc = processor.NewService(logger, s.db, procs)
	if err := s.pl.Init(ctx); err != nil {
		return nil, err
	}
	if err := s.conn.Init(ctx); err != nil {
		return nil, err
	}
	if err := s.proc.Init(ctx); err != nil {
		return nil, err
	}
	s.orc = orchestrator.NewOrchestrator(s.db, logger, s.pl, s.conn, s.proc, connPlugins{plugins}, procPlugins{}, fakeLifecycle{s.pl})
	s.db.OpHook = func(op, key string) error {
		if op == "get" || op == "keys" {
			return nil // reads are not counted: the property speaks of failing store operations that change state
		}
		s.ops++
		if s.failK > 0 && s.ops == s.failK {
			return verifkit.ErrInjected()
		}
		return nil
	}
	return s, nil
}

// ---- operations -------------------------------------------------------------------------------------------------

// op is one API call. Entities are referenced by creation ordinal within their kind (-1 = a non-existing id).
type op struct {
	Kind string `json:"kind"`
	A    int    `json:"a"`      // target ordinal
	B    int    `json:"b"`      // second ordinal (parent)
	Arg  string `json:"arg"`    // variant
	Fail int    `json:"fail_k"` // fail the k-th store operation of this call (0 = none)
}

func (o op) String() string {
	s := fmt.Sprintf("%s(%d,%d,%q)", o.Kind, o.A, o.B, o.Arg)
	if o.Fail > 0 {
		s += fmt.Sprintf("!fail@%d", o.Fail)
	}
	return s
}

func (s *sys) nth(prefix string, n int) string {
	k := 0
	for _, id := range s.ids {
		if strings.HasPrefix(id, prefix) {
			if k == n {
				return id[2:]
			}
			k++
		}
	}
	return "missing-id"
}

func (s *sys) count(prefix string) int {
	k := 0
	for _, id := range s.ids {
		if strings.HasPrefix(id, prefix) {
			k++
		}
	}
	return k
}

// apply executes one operation; it returns the API error (nil on success) and the number of store operations it made.
func (s *sys) apply(o op) (err error, storeOps int, panicked string) {
	ctx := context.Background()
	s.ops, s.failK = 0, o.Fail
	defer func() {
		storeOps = s.ops
		s.failK = 0
		if r := recover(); r != nil {
			panicked = fmt.Sprint(r)
			err = fmt.Errorf("panic: %v", r)
		}
	}()
	switch o.Kind {
	case "createPipeline":
		var p *pipeline.Instance
		p, err = s.orc.Pipelines.Create(ctx, pipeline.Config{Name: o.Arg, Description: "d"})
		if err == nil {
			s.ids = append(s.ids, "P:"+p.ID)
		}
	case "createConfigPipeline": // a pipeline provisioned by a config file (created below the API, as provisioning does)
		id := fmt.Sprintf("cfg-%d", s.count("P:"))
		var p *pipeline.Instance
		p, err = s.pl.Create(ctx, id, pipeline.Config{Name: o.Arg}, pipeline.ProvisionTypeConfig)
		if err == nil {
			s.ids = append(s.ids, "P:"+p.ID)
			var c *connector.Instance
			c, err = s.conn.Create(ctx, id+"-src", connector.TypeSource, "src", id, connector.Config{Name: "cs", Settings: map[string]string{}}, connector.ProvisionTypeConfig)
			if err == nil {
				s.ids = append(s.ids, "C:"+c.ID)
				_, err = s.pl.AddConnector(ctx, id, c.ID)
			}
		}
	case "updatePipeline":
		_, err = s.orc.Pipelines.Update(ctx, s.nth("P:", o.A), pipeline.Config{Name: o.Arg, Description: "d2"})
	case "updateDLQ":
		_, err = s.orc.Pipelines.UpdateDLQ(ctx, s.nth("P:", o.A), pipeline.DLQ{Plugin: "dst", Settings: map[string]string{"k": o.Arg}, WindowSize: 3, WindowNackThreshold: 1})
	case "deletePipeline":
		err = s.orc.Pipelines.Delete(ctx, s.nth("P:", o.A))
	case "startPipeline":
		err = s.orc.Pipelines.Start(ctx, s.nth("P:", o.A))
	case "stopPipeline":
		err = s.orc.Pipelines.Stop(ctx, s.nth("P:", o.A), false)
	case "createConnector":
		t := connector.TypeSource
		plug := "src"
		if strings.HasPrefix(o.Arg, "dest") {
			t, plug = connector.TypeDestination, "dst"
		}
		if strings.HasPrefix(o.Arg, "badtype") {
			t = connector.Type(9)
		}
		settings := map[string]string{"v": o.Arg}
		if strings.HasSuffix(o.Arg, "-invalid") {
			settings["invalid"] = "1"
		}
		name := "conn-" + o.Arg
		if strings.HasSuffix(o.Arg, "-noname") {
			name = ""
		}
		var c *connector.Instance
		c, err = s.orc.Connectors.Create(ctx, t, plug, s.nth("P:", o.B), connector.Config{Name: name, Settings: settings})
		if err == nil {
			s.ids = append(s.ids, "C:"+c.ID)
		}
	case "updateConnector":
		name := "conn-upd"
		if o.Arg == "noname" {
			name = ""
		}
		plug := "src"
		if c, gerr := s.conn.Get(ctx, s.nth("C:", o.A)); gerr == nil {
			plug = c.Plugin
		}
		if o.Arg == "newplugin" { // a plugin version bump
			plug += "@v2"
		}
		_, err = s.orc.Connectors.Update(ctx, s.nth("C:", o.A), plug, connector.Config{Name: name, Settings: map[string]string{"v": o.Arg}})
	case "setConnectorState": // what a finished run leaves behind: a stored source position
		_, err = s.conn.SetState(ctx, s.nth("C:", o.A), connector.SourceState{Position: []byte("p7")})
	case "deleteConnector":
		err = s.orc.Connectors.Delete(ctx, s.nth("C:", o.A))
	case "createProcessor":
		parent := processor.Parent{ID: s.nth("P:", o.B), Type: processor.ParentTypePipeline}
		if strings.HasPrefix(o.Arg, "conn") {
			parent = processor.Parent{ID: s.nth("C:", o.B), Type: processor.ParentTypeConnector}
		}
		if strings.HasPrefix(o.Arg, "badparent") {
			parent.Type = processor.ParentType(7)
		}
		plug := "proc"
		if strings.HasSuffix(o.Arg, "-noplugin") {
			plug = "nope"
		}
		var p *processor.Instance
		p, err = s.orc.Processors.Create(ctx, plug, parent, processor.Config{Settings: map[string]string{"v": o.Arg}, Workers: 1}, "")
		if err == nil {
			s.ids = append(s.ids, "R:"+p.ID)
		}
	case "updateProcessor":
		w := 2
		if o.Arg == "neg" {
			w = -1
		}
		settings := map[string]string{"v": o.Arg}
		if o.Arg == "egressbad" { // host-reserved settings that do not parse (a wildcard allow entry, a negative timeout)
			settings = map[string]string{"v": o.Arg, "sdk.egress.allow": "https://*.example.com", "sdk.egress.timeout": "-3s", "sdk.egress.maxResponseBytes": "many"}
		}
		plug := "proc"
		if o.Arg == "noplugin" {
			plug = ""
		}
		if o.Arg == "plug2" { // the update also switches the processor to another plugin
			plug = "proc2"
		}
		_, err = s.orc.Processors.Update(ctx, s.nth("R:", o.A), plug, processor.Config{Settings: settings, Workers: w})
	case "deleteProcessor":
		err = s.orc.Processors.Delete(ctx, s.nth("R:", o.A))
	default:
		panic("unknown op " + o.Kind)
	}
	return err, 0, ""
}

// live returns whether the n-th entity of a kind still exists in memory.
func (s *sys) live(prefix string, n int) bool {
	id := s.nth(prefix, n)
	ctx := context.Background()
	switch prefix {
	case "P:":
		_, err := s.pl.Get(ctx, id)
		return err == nil
	case "C:":
		_, err := s.conn.Get(ctx, id)
		return err == nil
	default:
		_, err := s.proc.Get(ctx, id)
		return err == nil
	}
}

// alphabet lists the operations enabled in the current state (simplest first), without faults.
func (s *sys) alphabet(thorough bool) []op {
	var out []op
	np, nc, nr := s.count("P:"), s.count("C:"), s.count("R:")
	maxP, maxC, maxR := 2, 2, 2
	if np < maxP {
		out = append(out, op{Kind: "createPipeline", Arg: "a"})
		if np > 0 {
			out = append(out, op{Kind: "createPipeline", Arg: "b"})
		}
		out = append(out, op{Kind: "createPipeline", Arg: ""})
		if thorough || np == 0 {
			out = append(out, op{Kind: "createConfigPipeline", Arg: "cfg"})
		}
	}
	for p := 0; p < np; p++ {
		if !s.live("P:", p) {
			continue
		}
		out = append(out, op{Kind: "updatePipeline", A: p, Arg: "c"}, op{Kind: "updatePipeline", A: p, Arg: ""}, op{Kind: "updatePipeline", A: p, Arg: "a"}, op{Kind: "updatePipeline", A: p, Arg: "b"},
			op{Kind: "deletePipeline", A: p}, op{Kind: "startPipeline", A: p}, op{Kind: "stopPipeline", A: p})
		if thorough {
			out = append(out, op{Kind: "updateDLQ", A: p, Arg: "x"})
		}
		if nc < maxC {
			out = append(out, op{Kind: "createConnector", B: p, Arg: "source"}, op{Kind: "createConnector", B: p, Arg: "dest"},
				op{Kind: "createConnector", B: p, Arg: "source-invalid"}, op{Kind: "createConnector", B: p, Arg: "badtype"}, op{Kind: "createConnector", B: p, Arg: "source-noname"})
		}
		if nr < maxR {
			out = append(out, op{Kind: "createProcessor", B: p, Arg: "pipe"}, op{Kind: "createProcessor", B: p, Arg: "pipe-noplugin"}, op{Kind: "createProcessor", B: p, Arg: "badparent"})
		}
	}
	out = append(out, op{Kind: "deletePipeline", A: -1}, op{Kind: "createConnector", B: -1, Arg: "source"})
	for c := 0; c < nc; c++ {
		if !s.live("C:", c) {
			continue
		}
		out = append(out, op{Kind: "updateConnector", A: c, Arg: "u"}, op{Kind: "updateConnector", A: c, Arg: "noname"}, op{Kind: "updateConnector", A: c, Arg: "newplugin"}, op{Kind: "deleteConnector", A: c}, op{Kind: "setConnectorState", A: c})
		if nr < maxR {
			out = append(out, op{Kind: "createProcessor", B: c, Arg: "conn"})
		}
	}
	for r := 0; r < nr; r++ {
		if !s.live("R:", r) {
			continue
		}
		out = append(out, op{Kind: "updateProcessor", A: r, Arg: "u"}, op{Kind: "updateProcessor", A: r, Arg: "neg"}, op{Kind: "updateProcessor", A: r, Arg: "egressbad"}, op{Kind: "updateProcessor", A: r, Arg: "noplugin"}, op{Kind: "updateProcessor", A: r, Arg: "plug2"}, op{Kind: "deleteProcessor", A: r})
	}
	return out
}

// ---- canonical dumps ---------------------------------------------------------------------------------------------

func (s *sys) rename(id string) string {
	for i, x := range s.ids {
		if x[2:] == id {
			return fmt.Sprintf("%s%d", x[:1], i)
		}
	}
	return "?" + id
}

func (s *sys) renameAll(ids []string) []string {
	out := make([]string, len(ids))
	for i, id := range ids {
		out[i] = s.rename(id)
	}
	return out
}

func ts(t time.Time, full bool) string {
	if !full {
		return ""
	}
	return t.UTC().Format(time.RFC3339Nano)
}

// dump renders the API-visible state held by the given services (full: including creation timestamps).
func (s *sys) dumpServices(pl *pipeline.Service, conn *connector.Service, proc *processor.Service, full bool) string {
	ctx := context.Background()
	var lines []string
	for id, p := range pl.List(ctx) {
		lines = append(lines, fmt.Sprintf("pipeline %s name=%q desc=%q status=%s err=%q prov=%d dlq=%v conns=%v procs=%v created=%s",
			s.rename(id), p.Config.Name, p.Config.Description, p.GetStatus(), p.Error, p.ProvisionedBy, p.DLQ, s.renameAll(p.ConnectorIDs), s.renameAll(p.ProcessorIDs), ts(p.CreatedAt, full)))
	}
	for id, c := range conn.List(ctx) {
		st, _ := json.Marshal(c.State)
		lines = append(lines, fmt.Sprintf("connector %s type=%d plugin=%s pipeline=%s cfg=%v procs=%v state=%s prov=%d last=%v created=%s",
			s.rename(id), c.Type, c.Plugin, s.rename(c.PipelineID), c.Config, s.renameAll(c.ProcessorIDs), st, c.ProvisionedBy, c.LastActiveConfig, ts(c.CreatedAt, full)))
	}
	for id, r := range proc.List(ctx) {
		lines = append(lines, fmt.Sprintf("processor %s plugin=%s parent=%s/%d cfg=%v cond=%q prov=%d created=%s",
			s.rename(id), r.Plugin, s.rename(r.Parent.ID), r.Parent.Type, r.Config, r.Condition, r.ProvisionedBy, ts(r.CreatedAt, full)))
	}
	sort.Strings(lines)
	return strings.Join(lines, "\n")
}

func (s *sys) dumpMemory(full bool) string { return s.dumpServices(s.pl, s.conn, s.proc, full) }

// dumpReloaded initialises FRESH services from a copy of the store and dumps what a restarted server would see.
func (s *sys) dumpReloaded(full bool) (string, error) {
	t, err := newSys(s.db.Content())
	if err != nil {
		return "", err
	}
	t.ids = s.ids
	d := t.dumpMemory(full)
	// a restarted server reports a running pipeline as system-stopped (to be resumed): normalise for the comparison
	return strings.ReplaceAll(d, "status=SystemStopped", "status=Running"), nil
}

func (s *sys) storeKeys() string {
	var ks []string
	for k := range s.db.Content() {
		i := strings.LastIndex(k, ":")
		ks = append(ks, k[:i+1]+s.rename(k[i+1:]))
	}
	sort.Strings(ks)
	return strings.Join(ks, ",")
}

// references checks pipelines <-> connectors <-> processors references.
func (s *sys) references() string {
	ctx := context.Background()
	var bad []string
	pls, conns, procs := s.pl.List(ctx), s.conn.List(ctx), s.proc.List(ctx)
	for id, p := range pls {
		for _, c := range p.ConnectorIDs {
			if x, ok := conns[c]; !ok || x.PipelineID != id {
				bad = append(bad, fmt.Sprintf("pipeline %s lists connector %s which does not exist / belongs elsewhere", s.rename(id), s.rename(c)))
			}
		}
		for _, r := range p.ProcessorIDs {
			if x, ok := procs[r]; !ok || x.Parent.ID != id {
				bad = append(bad, fmt.Sprintf("pipeline %s lists processor %s which does not exist / has another parent", s.rename(id), s.rename(r)))
			}
		}
	}
	for id, c := range conns {
		p, ok := pls[c.PipelineID]
		if !ok || !contains(p.ConnectorIDs, id) {
			bad = append(bad, fmt.Sprintf("connector %s is not listed by its pipeline %s", s.rename(id), s.rename(c.PipelineID)))
		}
		for _, r := range c.ProcessorIDs {
			if x, ok := procs[r]; !ok || x.Parent.ID != id {
				bad = append(bad, fmt.Sprintf("connector %s lists processor %s which does not exist / has another parent", s.rename(id), s.rename(r)))
			}
		}
	}
	for id, r := range procs {
		switch r.Parent.Type {
		case processor.ParentTypePipeline:
			if p, ok := pls[r.Parent.ID]; !ok || !contains(p.ProcessorIDs, id) {
				bad = append(bad, fmt.Sprintf("processor %s is not listed by its parent pipeline", s.rename(id)))
			}
		case processor.ParentTypeConnector:
			if c, ok := conns[r.Parent.ID]; !ok || !contains(c.ProcessorIDs, id) {
				bad = append(bad, fmt.Sprintf("processor %s is not listed by its parent connector", s.rename(id)))
			}
		}
	}
	sort.Strings(bad)
	return strings.Join(bad, "; ")
}

func contains(l []string, x string) bool {
	for _, y := range l {
		if y == x {
			return true
		}
	}
	return false
}

// protectedDump dumps running and config-provisioned pipelines with everything attached to them.
func (s *sys) protectedDump() string {
	ctx := context.Background()
	var lines []string
	for id, p := range s.pl.List(ctx) {
		if p.GetStatus() != pipeline.StatusRunning && p.ProvisionedBy != pipeline.ProvisionTypeConfig {
			continue
		}
		lines = append(lines, fmt.Sprintf("pipeline %s name=%q dlq=%v conns=%v procs=%v", s.rename(id), p.Config.Name, p.DLQ, s.renameAll(p.ConnectorIDs), s.renameAll(p.ProcessorIDs)))
		for _, cid := range p.ConnectorIDs {
			if c, err := s.conn.Get(ctx, cid); err == nil {
				lines = append(lines, fmt.Sprintf("connector %s cfg=%v plugin=%s procs=%v", s.rename(cid), c.Config, c.Plugin, s.renameAll(c.ProcessorIDs)))
			}
		}
		for _, rid := range p.ProcessorIDs {
			if r, err := s.proc.Get(ctx, rid); err == nil {
				lines = append(lines, fmt.Sprintf("processor %s cfg=%v", s.rename(rid), r.Config))
			}
		}
	}
	sort.Strings(lines)
	return strings.Join(lines, "\n")
}

// build replays a history on fresh services.
func build(hist []op) (*sys, error) {
	s, err := newSys(nil)
	if err != nil {
		return nil, err
	}
	for _, o := range hist {
		s.apply(o)
	}
	return s, nil
}

func histString(h []op) string {
	var p []string
	for _, o := range h {
		p = append(p, o.String())
	}
	return strings.Join(p, " ; ")
}

func siteOf(o op, what string) string {
	return fmt.Sprintf("C14/%s/%s", what, o.Kind)
}

func TestVerifC14(t *testing.T) {
	rep := verifkit.NewReport("C14", "api-bfs")
	defer func() {
		if err := rep.Write(); err != nil {
			t.Fatal(err)
		}
		if rep.Violations() > 0 {
			t.Fail()
		}
	}()
	if rp := os.Getenv("VERIF_REPLAY"); rp != "" {
		replayHistory(t, rep, rp)
		return
	}
	thorough := verifkit.Thorough()
	maxDepth := 4
	if thorough {
		maxDepth = 5
	}
	if v := os.Getenv("VERIF_DEPTH"); v != "" {
		fmt.Sscanf(v, "%d", &maxDepth)
	}
	shard, n := verifkit.Shard()
	deadline := verifkit.Deadline(150*time.Second, 40*time.Minute)
	seen := map[string]bool{}
	root, _ := build(nil)
	seen[root.dumpMemory(false)+"|after-a-failed-call="] = true
	// Deduplication key = canonical visible state + whether the history contains a call that FAILED: services keep
	// state that no API shows (e.g. the set of names in use), so a state reached through a rejected call is explored
	// separately from the same visible state reached without one (otherwise the merge could hide different futures).
	type entry struct {
		hist   []op
		failed string // the last call of the history that failed ("" = none)
	}
	frontier := []entry{{}}
	transitions := 0
	completedDepth := 0
	// Non-initial start states ("rich" histories that BFS from the empty server reaches only beyond its depth): each is
	// explored for the last two levels. A connector and a pipeline that own two processors each, and a pipeline with a
	// source, a destination and a processor.
	rich := [][]op{
		{{Kind: "createPipeline", Arg: "a"}, {Kind: "createConnector", B: 0, Arg: "source"}, {Kind: "createProcessor", B: 0, Arg: "conn"}, {Kind: "createProcessor", B: 0, Arg: "conn"}},
		{{Kind: "createPipeline", Arg: "a"}, {Kind: "createProcessor", B: 0, Arg: "pipe"}, {Kind: "createProcessor", B: 0, Arg: "pipe"}},
		{{Kind: "createPipeline", Arg: "a"}, {Kind: "createConnector", B: 0, Arg: "source"}, {Kind: "createConnector", B: 0, Arg: "dest"}, {Kind: "createProcessor", B: 0, Arg: "pipe"}},
	}
	richAdded := 0
	for depth := 1; depth <= maxDepth && len(frontier) > 0; depth++ {
		var next []entry
		if depth == maxDepth-1 || (maxDepth == 1 && depth == 1) {
			for _, h := range rich {
				rs, err := build(h)
				if err != nil {
					continue
				}
				key := rs.dumpMemory(false) + "|after-a-failed-call="
				if !seen[key] {
					seen[key] = true
					rep.State(key)
					frontier = append(frontier, entry{hist: h})
					richAdded++
				}
			}
		}
		for hi, fe := range frontier {
			hist := fe.hist
			if time.Now().After(deadline) {
				rep.Cap(fmt.Sprintf("wall-clock budget reached at BFS depth %d (depth %d completed)", depth, completedDepth))
				frontier = nil
				break
			}
			base, err := build(hist)
			if err != nil {
				t.Fatal(err)
			}
			for oi, o := range base.alphabet(thorough) {
				// the last level is sharded over processes; earlier levels are needed by everybody to build the frontier
				mine := depth < maxDepth || (hi*131+oi)%n == shard
				// 1. fault-free execution (measures the number of store operations of the call)
				s, _ := build(hist)
				before, beforeProt := s.dumpMemory(true), s.protectedDump()
				beforeKeys := s.storeKeys()
				err, nops, pan := s.apply(o)
				h2 := append(append([]op{}, hist...), o)
				cleanT := true
				if mine {
					transitions++
					rep.Eval()
					cleanT = checkState(rep, s, h2, o, err, pan, before, beforeKeys, beforeProt)
					// differential oracle: the same call on a server that was RESTARTED in the pre-state (fresh services
					// initialised from the store) must behave the same - whatever hidden in-memory state earlier (failed)
					// calls left behind must not matter
					if live, _ := build(hist); live != nil {
						if r, rerr := newSys(live.db.Content()); rerr == nil {
							r.ids = append([]string{}, live.ids...)
							// a restarted server resumes the pipelines that were running (lifecycle Init)
							for id, p := range r.pl.List(context.Background()) {
								if p.GetStatus() == pipeline.StatusSystemStopped {
									_ = r.pl.UpdateStatus(context.Background(), id, pipeline.StatusRunning, "")
								}
							}
							e2, _, _ := r.apply(o)
							if (e2 != nil) != (err != nil) {
								rep.AddViolation(verifkit.Violation{Key: siteOf(o, "live-server-differs-from-restarted-server"),
									Text:   fmt.Sprintf("%s returns err=%v on the live server but err=%v on a server restarted in the same stored state\nhistory: %s", o, firstLine(err), firstLine(e2), histString(h2)),
									Replay: map[string]any{"history": h2}})
							} else if a, b := strings.ReplaceAll(s.dumpMemory(false), "status=SystemStopped", "status=Running"), strings.ReplaceAll(r.dumpMemory(false), "status=SystemStopped", "status=Running"); a != b {
								rep.AddViolation(verifkit.Violation{Key: siteOf(o, "live-server-differs-from-restarted-server"),
									Text:   fmt.Sprintf("%s leads to different states on the live server and on a server restarted in the same stored state:\n--- live\n%s\n--- restarted\n%s\nhistory: %s", o, a, b, histString(h2)),
									Replay: map[string]any{"history": h2}})
							}
						}
					}
				}
				failedNow := fe.failed
				if err != nil {
					failedNow = o.String()
				}
				key := s.dumpMemory(false) + "|after-a-failed-call=" + failedNow
				if !seen[key] && cleanT {
					seen[key] = true
					rep.State(key)
					if depth < maxDepth {
						next = append(next, entry{h2, failedNow})
					}
					if len(seen)%37 == 5 {
						rep.Sample(map[string]any{"history": histString(h2), "state": strings.Split(key, "\n")})
					}
				}
				if !mine {
					continue
				}
				// 2. the same call with the k-th store operation failing, for every k. (Set-up steps of the harness that are
				// not management API calls - a file-provisioned pipeline, a stored position, the run state - are not faulted.)
				if o.Kind == "createConfigPipeline" || o.Kind == "setConnectorState" || o.Kind == "startPipeline" || o.Kind == "stopPipeline" {
					nops = 0
				}
				for k := 1; k <= nops; k++ {
					fo := o
					fo.Fail = k
					fs, _ := build(hist)
					fbefore, fprot := fs.dumpMemory(true), fs.protectedDump()
					fkeys := fs.storeKeys()
					ferr, _, fpan := fs.apply(fo)
					transitions++
					rep.Eval()
					fh := append(append([]op{}, hist...), fo)
					rep.Nontrivial(histString(fh))
					fclean := checkState(rep, fs, fh, fo, ferr, fpan, fbefore, fkeys, fprot)
					rep.Outcome(fmt.Sprintf("%s fail@%d err=%v", fo.Kind, k, ferr != nil))
					// a state corrupted by a failed call is a start state too (differential: chain one more op from it)
					fkey := fs.dumpMemory(false) + "|after-a-failed-call=" + fo.String()
					if !seen[fkey] && fclean {
						seen[fkey] = true
						rep.State(fkey)
						if depth < maxDepth {
							next = append(next, entry{fh, fo.String()})
						}
					}
				}
				rep.Outcome(fmt.Sprintf("%s err=%v", o.Kind, err != nil))
			}
		}
		if frontier != nil {
			completedDepth = depth
		}
		frontier = next
	}
	rep.Transitions(int64(transitions))
	rep.Bound("bfs_depth_completed", completedDepth)
	rep.Bound("rich_start_states_explored_for_last_two_levels", richAdded)
	rep.Bound("max_entities", "2 pipelines, 2 connectors, 2 processors")
	for i := 0; i < transitions && i < 1; i++ {
		rep.Trace()
	}
	rep.Extra("traces_are_histories", "every transition replays its whole history on fresh real services")
}

var traces int

// replayHistory re-executes ONE recorded history (check C14 <tier> --replay <file>) on fresh real services and
// evaluates the oracles on its last call, without the search.
func replayHistory(t *testing.T, rep *verifkit.Report, path string) {
	b, err := os.ReadFile(path)
	if err != nil {
		t.Fatalf("replay: %v", err)
	}
	var doc struct {
		Replay struct {
			History []op `json:"history"`
		} `json:"replay"`
	}
	if err := json.Unmarshal(b, &doc); err != nil || len(doc.Replay.History) == 0 {
		t.Fatalf("replay: no history in %s (%v)", path, err)
	}
	hist := doc.Replay.History
	s, err := build(hist[:len(hist)-1])
	if err != nil {
		t.Fatalf("replay: the history prefix cannot be rebuilt: %v", err)
	}
	o := hist[len(hist)-1]
	before, prot, keys := s.dumpMemory(true), s.protectedDump(), s.storeKeys()
	aerr, _, pan := s.apply(o)
	rep.Eval()
	rep.Transitions(int64(len(hist)))
	clean := checkState(rep, s, hist, o, aerr, pan, before, keys, prot)
	fmt.Printf("replay of %s\n  last call returned: %v\n  oracles clean: %v\n--- state before the last call\n%s\n--- state after\n%s\n", histString(hist), aerr, clean, before, s.dumpMemory(true))
}

// checkState evaluates the oracles on one transition; it returns false when the transition violated one (the state
// it leads to is then not used as a start state: every successor would only repeat the same finding).
func checkState(rep *verifkit.Report, s *sys, hist []op, o op, err error, pan string, before, beforeKeys, beforeProt string) (clean bool) {
	rep.Trace()
	clean = true
	bad := func(what, text string) {
		clean = false
		rep.AddViolation(verifkit.Violation{Key: siteOf(o, what), Text: text + "\nhistory: " + histString(hist), Replay: map[string]any{"history": hist}})
	}
	if pan != "" {
		if (o.Kind == "deleteConnector" || o.Kind == "deleteProcessor") && strings.HasPrefix(pan, "rollback failed") {
			// same root cause as rollback-recreates-entity: the rollback re-creates the entity through Create, whose
			// validation can refuse what Update accepted (e.g. an empty connector name); rollback.MustExecute then panics
			bad("rollback-recreates-entity", "the API call panicked while rolling back a failed delete by re-creating the entity: "+pan)
			return false
		}
		bad("panic", "the API call panicked: "+pan)
		return false
	}
	after := s.dumpMemory(true)
	// A failed delete is rolled back by CREATING the entity again (orchestrator rollback): it comes back with a new
	// creation time and without its state / last active config. That specific shape is reported under its own key.
	recreated := func(a, b string) bool {
		return (o.Kind == "deleteConnector" || o.Kind == "deleteProcessor") && a != b && stripVolatile(a) == stripVolatile(b)
	}
	if err != nil && recreated(before, after) {
		// the STORE side of the failed call is judged all the same: the call failed, so the stored keys are unchanged and a
		// restarted server finds exactly the state before the call (the known shape only concerns what memory lost)
		if s.storeKeys() != beforeKeys {
			bad("failed-call-changed-store", fmt.Sprintf("%s returned an error (%v) but the set of stored keys changed: %s -> %s", o, firstLine(err), beforeKeys, s.storeKeys()))
		}
		if rel, rerr := s.dumpReloaded(true); rerr != nil {
			bad("store-not-loadable", fmt.Sprintf("after the failed %s a restarted server cannot load the store: %v", o, rerr))
		} else if stripVolatile(rel) != stripVolatile(before) {
			bad("failed-call-changed-store", fmt.Sprintf("%s returned an error (%v) but a restarted server no longer finds the state before the call:\n--- before\n%s\n--- reloaded\n%s", o, firstLine(err), before, rel))
		}
		bad("rollback-recreates-entity", fmt.Sprintf("%s failed (%v) and was rolled back by creating the entity anew: creation time / state / last active config / its place in the parent's list are lost in memory while the store keeps the original:\n--- before\n%s\n--- after\n%s", o, firstLine(err), before, after))
		return false
	}
	if err != nil && after != before {
		bad("failed-call-changed-state", fmt.Sprintf("%s returned an error (%v) but the in-memory state changed:\n--- before\n%s\n--- after\n%s", o, firstLine(err), before, after))
	}
	if err != nil && s.storeKeys() != beforeKeys {
		bad("failed-call-changed-store", fmt.Sprintf("%s returned an error (%v) but the set of stored keys changed: %s -> %s", o, firstLine(err), beforeKeys, s.storeKeys()))
	}
	rel, rerr := s.dumpReloaded(true)
	if rerr != nil {
		bad("store-not-loadable", fmt.Sprintf("after %s a restarted server cannot load the store: %v", o, rerr))
	} else if rel != after {
		bad("memory-differs-from-store", fmt.Sprintf("after %s (err=%v) the in-memory view differs from what a restarted server loads from the store:\n--- memory\n%s\n--- reloaded\n%s", o, firstLine(err), after, rel))
	}
	if refs := s.references(); refs != "" {
		bad("dangling-reference", fmt.Sprintf("after %s (err=%v): %s", o, firstLine(err), refs))
	}
	if beforeProt != "" && o.Kind != "stopPipeline" && o.Kind != "startPipeline" && o.Kind != "createConfigPipeline" && o.Kind != "setConnectorState" {
		// resources of a running or file-provisioned pipeline are never modified through the API
		afterProt := s.protectedDump()
		for _, l := range strings.Split(beforeProt, "\n") {
			if !strings.Contains(afterProt, l) {
				bad("protected-resource-modified", fmt.Sprintf("%s (err=%v) modified a resource of a running or file-provisioned pipeline: %q is gone/changed:\n%s", o, firstLine(err), l, afterProt))
				break
			}
		}
	}
	return clean
}

var volatileRe = regexp.MustCompile(`( created=\S*| state=\S*| last=\{[^}]*\}[^ ]*)`)
var listRe = regexp.MustCompile(`(conns|procs)=\[([^\]]*)\]`)

// stripVolatile drops what a delete-rollback-by-recreation loses: creation time, state, last active config, and the
// POSITION of the entity in its parent's reference list (it is appended at the end again).
func stripVolatile(d string) string {
	d = volatileRe.ReplaceAllString(d, "")
	return listRe.ReplaceAllStringFunc(d, func(m string) string {
		sub := listRe.FindStringSubmatch(m)
		ids := strings.Fields(sub[2])
		sort.Strings(ids)
		return sub[1] + "=[" + strings.Join(ids, " ") + "]"
	})
}

func firstLine(err error) string {
	if err == nil {
		return "nil"
	}
	s := err.Error()
	if i := strings.Index(s, "\n"); i >= 0 {
		s = s[:i]
	}
	if len(s) > 200 {
		s = s[:200]
	}
	return s
}
