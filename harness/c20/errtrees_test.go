//go:build verif

// C20: error classification is stable under wrapping. Bounded-exhaustive enumeration of every error tree over
// the constructor alphabet up to a depth, evaluated by the real classifiers and compared with a reference
// computed by structural recursion over the tree.
package verifc20

import (
	"context"
	"fmt"
	"strings"
	"syscall"
	"testing"

	_ "github.com/conduitio/conduit/cmd/conduit/internal/llmsgen/allcodes"
	"github.com/conduitio/conduit/pkg/conduit/exitcode"
	"github.com/conduitio/conduit/pkg/foundation/cerrors"
	"github.com/conduitio/conduit/pkg/foundation/cerrors/conduiterr"
	apistatus "github.com/conduitio/conduit/pkg/http/api/status"
	"github.com/conduitio/conduit/pkg/pipeline"
	"github.com/conduitio/conduit/pkg/verifkit"
	"google.golang.org/genproto/googleapis/rpc/errdetails"
	"google.golang.org/grpc/codes"
	grpcstatus "google.golang.org/grpc/status"
)

type kind int

const (
	kPlain kind = iota
	kCanceled
	kSentinel // pipeline.ErrInstanceNotFound (plain sentinel, NotFound at the API)
	kCodeA    // conduiterr.New(codeA)
	kCodeB    // conduiterr.New(codeB)
	kStatus   // grpc status error (AlreadyExists)
	kConnRefused
	kUnknown   // conduiterr.New(conduiterr.CodeUnknown): the registered placeholder code
	kUnknownNF // conduiterr.WithUnknownReason(sentinel, NotFound): placeholder reason, but a known category
	nLeaves
	// unary
	kErrorf    // cerrors.Errorf("ctx: %w", c)
	kFatal     // cerrors.FatalError(c)
	kWrapA     // conduiterr.Wrap(codeA, "m", c)
	kWrapC     // conduiterr.Wrap(codeC, "m", c)
	kWithCodeB // conduiterr.WithCode(c, codeB)
	kOpaque    // cerrors.Errorf("ctx: %v", c) - not a wrapper: hides everything below
	// binary
	kJoin
	kErrorf2
)

var unary = []kind{kErrorf, kFatal, kWrapA, kWrapC, kWithCodeB, kOpaque}

// kErrorf2 (two %w verbs in one cerrors.Errorf) is NOT part of the alphabet: cerrors.Errorf is xerrors.Errorf, which
// documents a single %w operand. Call sites that use it anyway are found and probed by TestVerifC20Sites.
var binary = []kind{kJoin}

// unknownNotFound is the (unregistered) fallback code WithUnknownReason builds: reason internal.unknown, category NotFound.
var unknownNotFound = conduiterr.WithUnknownReason(cerrors.New("x"), codes.NotFound).Code

type tree struct {
	k    kind
	a, b *tree
}

func (t *tree) String() string {
	names := map[kind]string{kPlain: "plain", kCanceled: "canceled", kSentinel: "sentinel", kCodeA: "codedA", kCodeB: "codedB",
		kStatus: "grpcstatus", kConnRefused: "econnrefused", kUnknown: "unknown", kUnknownNF: "unknownReason(sentinel,NotFound)", kErrorf: "errorf", kFatal: "fatal", kWrapA: "wrapA", kWrapC: "wrapC",
		kWithCodeB: "withCodeB", kOpaque: "opaque%v", kJoin: "join", kErrorf2: "errorf2"}
	switch {
	case t.a == nil:
		return names[t.k]
	case t.b == nil:
		return names[t.k] + "(" + t.a.String() + ")"
	default:
		return names[t.k] + "(" + t.a.String() + "," + t.b.String() + ")"
	}
}

var (
	codeA  = conduiterr.CodeNotFound    // Validation bucket
	codeB  = conduiterr.CodeUnavailable // Environment bucket
	codeC  = conduiterr.CodeInternal    // Runtime bucket
	stLeaf = codes.AlreadyExists        // Validation bucket
)

func build(t *tree) error {
	switch t.k {
	case kPlain:
		return cerrors.New("plain")
	case kCanceled:
		return context.Canceled
	case kSentinel:
		return pipeline.ErrInstanceNotFound
	case kCodeA:
		return conduiterr.New(codeA, "coded A")
	case kCodeB:
		return conduiterr.New(codeB, "coded B")
	case kStatus:
		return grpcstatus.Error(stLeaf, "status leaf")
	case kConnRefused:
		return syscall.ECONNREFUSED
	case kUnknown:
		return conduiterr.New(conduiterr.CodeUnknown, "unknown")
	case kUnknownNF:
		return conduiterr.WithUnknownReason(pipeline.ErrInstanceNotFound, codes.NotFound)
	case kErrorf:
		return cerrors.Errorf("ctx: %w", build(t.a))
	case kFatal:
		return cerrors.FatalError(build(t.a))
	case kWrapA:
		return conduiterr.Wrap(codeA, "wrapped A", build(t.a))
	case kWrapC:
		return conduiterr.Wrap(codeC, "wrapped C", build(t.a))
	case kWithCodeB:
		return conduiterr.WithCode(build(t.a), codeB)
	case kOpaque:
		return cerrors.Errorf("ctx: %v", build(t.a))
	case kJoin:
		return cerrors.Join(build(t.a), build(t.b))
	case kErrorf2:
		return cerrors.Errorf("two: %w and %w", build(t.a), build(t.b))
	}
	panic("bad kind")
}

// ---- reference: structural recursion -------------------------------------------------------------------------

type class struct {
	fatal     bool
	canceled  bool
	sentinel  bool
	hasCode   bool
	code      conduiterr.Code // code of the first coded node in pre-order (errors.As order)
	hasStatus bool
	stCode    codes.Code // code of the first grpc status node in pre-order
	connRef   bool
}

// ref computes the classification the documentation promises. pre-order "first" = node, then children left to right.
func ref(t *tree) class {
	switch t.k {
	case kPlain:
		return class{}
	case kCanceled:
		return class{canceled: true}
	case kSentinel:
		return class{sentinel: true}
	case kCodeA:
		return class{hasCode: true, code: codeA}
	case kCodeB:
		return class{hasCode: true, code: codeB}
	case kStatus:
		return class{hasStatus: true, stCode: stLeaf}
	case kConnRefused:
		return class{connRef: true}
	case kUnknown:
		return class{hasCode: true, code: conduiterr.CodeUnknown}
	case kUnknownNF:
		return class{hasCode: true, code: unknownNotFound, sentinel: true}
	case kOpaque:
		return class{}
	case kErrorf:
		return ref(t.a)
	case kFatal:
		c := ref(t.a)
		c.fatal = true
		return c
	case kWrapA, kWrapC:
		c := ref(t.a)
		if !c.hasCode { // Wrap never shadows an inner code; it only supplies one when there is none
			c.hasCode = true
			c.code = codeA
			if t.k == kWrapC {
				c.code = codeC
			}
		}
		return c
	case kWithCodeB:
		c := ref(t.a)
		c.hasCode = true
		c.code = codeB // explicit override
		return c
	case kJoin, kErrorf2:
		a, b := ref(t.a), ref(t.b)
		c := class{fatal: a.fatal || b.fatal, canceled: a.canceled || b.canceled, sentinel: a.sentinel || b.sentinel, connRef: a.connRef || b.connRef}
		if a.hasCode {
			c.hasCode, c.code = true, a.code
		} else if b.hasCode {
			c.hasCode, c.code = true, b.code
		}
		if a.hasStatus {
			c.hasStatus, c.stCode = true, a.stCode
		} else if b.hasStatus {
			c.hasStatus, c.stCode = true, b.stCode
		}
		return c
	}
	panic("bad kind")
}

// bucket is the documented exit-code table (package doc of pkg/conduit/exitcode), written independently.
func bucket(c codes.Code) int {
	switch c {
	case codes.OK, codes.Canceled:
		return 0
	case codes.InvalidArgument, codes.NotFound, codes.AlreadyExists, codes.FailedPrecondition, codes.OutOfRange:
		return 2
	case codes.Unavailable, codes.DeadlineExceeded, codes.ResourceExhausted, codes.Unauthenticated, codes.PermissionDenied:
		return 3
	}
	return 1
}

func refExit(c class) int {
	switch {
	case c.canceled:
		return 0
	case c.hasCode:
		return bucket(c.code.GRPCCode())
	case c.hasStatus:
		return bucket(c.stCode)
	case c.connRef:
		return 3
	}
	return 1
}

// ---- enumeration ---------------------------------------------------------------------------------------------

// gen calls f for every tree of depth <= d. Binary nodes draw their children from depth <= bd (bd <= d-1).
func gen(d, bd int, f func(*tree)) {
	for k := kind(0); k < nLeaves; k++ {
		f(&tree{k: k})
	}
	if d <= 1 {
		return
	}
	gen(d-1, bd, func(a *tree) {
		for _, k := range unary {
			f(&tree{k: k, a: a})
		}
	})
	cb := d - 1
	if cb > bd {
		cb = bd
	}
	gen(cb, bd, func(a *tree) {
		gen(cb, bd, func(b *tree) {
			for _, k := range binary {
				f(&tree{k: k, a: a, b: b})
			}
		})
	})
}

func depthOf(t *tree) int {
	if t.a == nil {
		return 1
	}
	d := depthOf(t.a)
	if t.b != nil {
		if e := depthOf(t.b); e > d {
			d = e
		}
	}
	return d + 1
}

func reasonOf(err error) (string, codes.Code, bool) {
	st, ok := grpcstatus.FromError(err)
	if !ok {
		return "", 0, false
	}
	for _, d := range st.Details() {
		if info, ok := d.(*errdetails.ErrorInfo); ok && info.GetDomain() == "conduit" {
			return info.GetReason(), st.Code(), true
		}
	}
	return "", st.Code(), false
}

func checkTree(rep *verifkit.Report, t *tree) {
	err := build(t)
	want := ref(t)
	fail := func(what, key string) {
		rep.AddViolation(verifkit.Violation{Key: "C20/" + key, Text: fmt.Sprintf("%s for error tree %s (err=%q)", what, t, err.Error()),
			Replay: map[string]any{"tree": t.String()}})
	}
	if got := cerrors.IsFatalError(err); got != want.fatal {
		fail(fmt.Sprintf("IsFatalError=%v, reference says fatal=%v", got, want.fatal), "fatal")
	}
	ce, ok := conduiterr.Get(err)
	if ok != want.hasCode {
		fail(fmt.Sprintf("conduiterr.Get found=%v, reference says coded=%v", ok, want.hasCode), "code-presence")
	} else if ok {
		if ce.Code != want.code {
			fail(fmt.Sprintf("conduiterr.Get code=%s, reference says %s", ce.Code, want.code), "code-identity")
		}
		// gRPC round trip keeps the code
		back := conduiterr.FromStatus(conduiterr.ToStatus(ce))
		if back.Code != ce.Code && ce.Code != unknownNotFound { // the round trip is promised for REGISTERED codes; the category-only fallback is not one
			fail(fmt.Sprintf("ToStatus->FromStatus changed the code %s -> %s", ce.Code, back.Code), "roundtrip")
		}
		if st := conduiterr.ToStatus(ce); st.Code() != want.code.GRPCCode() {
			fail(fmt.Sprintf("ToStatus grpc code=%s want %s", st.Code(), want.code.GRPCCode()), "grpc-status")
		}
	}
	if got := cerrors.Is(err, pipeline.ErrInstanceNotFound); got != want.sentinel {
		fail(fmt.Sprintf("Is(sentinel)=%v, reference says %v", got, want.sentinel), "sentinel")
	}
	if got, w := exitcode.ExitCode(err), refExit(want); got != w {
		fail(fmt.Sprintf("ExitCode=%d, reference says %d", got, w), "exitcode")
	}
	// API boundary: coded error -> its grpc category and reason; uncoded sentinel -> NotFound + internal.unknown
	apiErr := apistatus.PipelineError(err)
	reason, gc, hasInfo := reasonOf(apiErr)
	switch {
	case want.hasCode:
		if !hasInfo || reason != want.code.Reason() || gc != want.code.GRPCCode() {
			fail(fmt.Sprintf("PipelineError -> (%s,%s,info=%v), want (%s,%s)", reason, gc, hasInfo, want.code.Reason(), want.code.GRPCCode()), "api-coded")
		}
	case want.sentinel:
		if gc != codes.NotFound || !hasInfo || reason != conduiterr.CodeUnknown.Reason() {
			fail(fmt.Sprintf("PipelineError of uncoded sentinel -> (%s,%s,info=%v), want (internal.unknown,NotFound)", reason, gc, hasInfo), "api-sentinel")
		}
	default:
		if !hasInfo || reason != conduiterr.CodeUnknown.Reason() {
			fail(fmt.Sprintf("PipelineError of uncoded error is codeless on the wire: (%s,%s,info=%v)", reason, gc, hasInfo), "api-fallback")
		}
	}
	// exit code is a function of the classification only: it must agree with the exit code of a canonical minimal
	// representative (checked globally in the test through classExit).
}

func TestVerifC20(t *testing.T) {
	rep := verifkit.NewReport("C20", "errtrees")
	defer func() {
		if err := rep.Write(); err != nil {
			t.Fatal(err)
		}
		if rep.Violations() > 0 {
			t.Fail()
		}
	}()
	shard, n := verifkit.Shard()
	d, bd := 4, 2
	if verifkit.Thorough() {
		d, bd = 5, 2
	}
	rep.Bound("tree_depth", d)
	rep.Bound("binary_child_depth", bd)
	rep.Bound("registered_codes", len(conduiterr.Codes()))
	classExit := map[string]int{}
	idx := 0
	gen(d, bd, func(tr *tree) {
		idx++
		if idx%n != shard {
			return
		}
		rep.Eval()
		rep.Trace()
		rep.Transitions(int64(depthOf(tr)))
		c := ref(tr)
		ck := fmt.Sprintf("%+v", c)
		rep.State(tr.String())
		rep.Outcome(ck)
		if depthOf(tr) > 1 && (c.fatal || c.hasCode || c.canceled || c.hasStatus || c.sentinel || c.connRef) {
			rep.Nontrivial(tr.String())
		}
		if idx%9973 == 1 || (depthOf(tr) == 3 && idx%997 == 3) {
			rep.Sample(map[string]any{"tree": tr.String(), "class": ck, "exit": refExit(c)})
		}
		checkTree(rep, tr)
		// path independence: same classification => same exit code
		ec := exitcode.ExitCode(build(tr))
		ek := fmt.Sprintf("%v|%v|%v|%v|%v|%v", c.canceled, c.hasCode, c.code.GRPCCode(), c.hasStatus, c.stCode, c.connRef)
		if c.hasCode {
			ek = fmt.Sprintf("%v|coded|%v", c.canceled, c.code.GRPCCode())
		}
		if prev, ok := classExit[ek]; ok && prev != ec {
			rep.AddViolation(verifkit.Violation{Key: "C20/exit-path-dependent", Text: fmt.Sprintf("exit code %d vs %d for the same classification %s (tree %s)", ec, prev, ek, tr), Replay: map[string]any{"tree": tr.String()}})
		}
		classExit[ek] = ec
	})

	// every registered code x every plain wrapper context of depth <= 3
	if shard == 0 {
		ctxs := wrapperContexts(3)
		rep.Bound("wrapper_contexts_per_code", len(ctxs))
		for _, code := range conduiterr.Codes() {
			for ci, wrap := range ctxs {
				leaf := conduiterr.New(code, "m")
				err := wrap.f(leaf)
				rep.Eval()
				rep.Trace()
				rep.Transitions(int64(wrap.depth))
				rep.State("code:" + code.Reason() + "/" + wrap.name)
				rep.Nontrivial("code:" + code.Reason() + "/" + wrap.name)
				if ci == 7 {
					rep.Sample(map[string]any{"code": code.Reason(), "context": wrap.name, "exit": exitcode.ExitCode(err)})
				}
				bad := func(what string) {
					rep.AddViolation(verifkit.Violation{Key: "C20/registered-code", Text: fmt.Sprintf("%s: code %s in context %s", what, code, wrap.name), Replay: map[string]any{"code": code.Reason(), "context": wrap.name}})
				}
				got, ok := conduiterr.Get(err)
				if !ok || got.Code != code {
					bad("code lost under plain wrappers")
					continue
				}
				if cerrors.IsFatalError(err) != wrap.fatal {
					bad(fmt.Sprintf("fatal=%v want %v", cerrors.IsFatalError(err), wrap.fatal))
				}
				if back := conduiterr.FromStatus(conduiterr.ToStatus(got)); back.Code != code {
					bad(fmt.Sprintf("grpc round trip changed code to %s", back.Code))
				}
				st, _ := grpcstatus.FromError(apistatus.PluginError(err))
				if st.Code() != code.GRPCCode() {
					bad(fmt.Sprintf("API status %s want %s", st.Code(), code.GRPCCode()))
				}
				// round trip through the wire form of the API error
				if back := conduiterr.FromStatus(st); back.Code != code {
					bad(fmt.Sprintf("API wire round trip changed code to %s", back.Code))
				}
				if ec := exitcode.ExitCode(err); ec != bucket(code.GRPCCode()) {
					bad(fmt.Sprintf("exit code %d want %d", ec, bucket(code.GRPCCode())))
				}
				if ec := exitcode.ExitCode(err); ec < 1 || ec > 3 {
					bad(fmt.Sprintf("exit code %d outside {1,2,3} for a registered code", ec))
				}
			}
		}
	}
}

type wctx struct {
	name  string
	depth int
	fatal bool
	f     func(error) error
}

// wrapperContexts returns every composition of up to d plain wrappers (they never carry a classification of their own).
func wrapperContexts(d int) []wctx {
	base := []wctx{
		{"errorf", 1, false, func(e error) error { return cerrors.Errorf("x: %w", e) }},
		{"fatal", 1, true, func(e error) error { return cerrors.FatalError(e) }},
		{"joinL", 1, false, func(e error) error { return cerrors.Join(e, cerrors.New("other")) }},
		{"joinR", 1, false, func(e error) error { return cerrors.Join(cerrors.New("other"), e) }},
		{"midW", 1, false, func(e error) error { return cerrors.Errorf("a %w b", e) }},
		{"deadlineJoin", 1, false, func(e error) error { return cerrors.Join(context.DeadlineExceeded, e) }},
	}
	out := []wctx{{"id", 0, false, func(e error) error { return e }}}
	level := out
	for i := 0; i < d; i++ {
		var next []wctx
		for _, inner := range level {
			for _, b := range base {
				inner, b := inner, b
				next = append(next, wctx{name: strings.TrimPrefix(b.name+"∘"+inner.name, "∘"), depth: inner.depth + 1, fatal: inner.fatal || b.fatal,
					f: func(e error) error { return b.f(inner.f(e)) }})
			}
		}
		out = append(out, next...)
		level = next
	}
	return out
}
