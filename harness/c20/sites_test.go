//go:build verif

package verifc20

import (
	"fmt"
	"go/ast"
	"go/parser"
	"go/token"
	"io/fs"
	"os"
	"path/filepath"
	"strconv"
	"strings"
	"testing"

	"github.com/conduitio/conduit/pkg/foundation/cerrors"
	"github.com/conduitio/conduit/pkg/foundation/cerrors/conduiterr"
	"github.com/conduitio/conduit/pkg/verifkit"
)

// TestVerifC20Sites closes the alphabet of TestVerifC20: it visits EVERY call of cerrors.Errorf / xerrors.Errorf in the
// non-test sources of the repository, and for each call whose format carries more than one %w verb (a shape outside
// the enumerated constructor alphabet because xerrors.Errorf wraps at most one operand) it executes the real
// constructor with that exact format on classified operands and checks that the classification survives.
func TestVerifC20Sites(t *testing.T) {
	rep := verifkit.NewReport("C20", "callsites")
	defer func() {
		if err := rep.Write(); err != nil {
			t.Fatal(err)
		}
		if rep.Violations() > 0 {
			t.Fail()
		}
	}()
	root := os.Getenv("VERIF_REPO_DIR")
	if root == "" {
		root = "/repo"
	}
	fset := token.NewFileSet()
	calls, multi := 0, 0
	for _, top := range []string{"pkg", "cmd", "."} {
		dir := filepath.Join(root, top)
		_ = filepath.WalkDir(dir, func(path string, d fs.DirEntry, err error) error {
			if err != nil {
				return nil
			}
			if d.IsDir() {
				if top == "." && path != dir { // root package files only
					return filepath.SkipDir
				}
				if strings.HasPrefix(d.Name(), ".") && path != dir || d.Name() == "testdata" || d.Name() == "node_modules" {
					return filepath.SkipDir
				}
				return nil
			}
			if !strings.HasSuffix(path, ".go") || strings.HasSuffix(path, "_test.go") {
				return nil
			}
			f, perr := parser.ParseFile(fset, path, nil, 0)
			if perr != nil {
				return nil
			}
			var fn string
			ast.Inspect(f, func(n ast.Node) bool {
				switch x := n.(type) {
				case *ast.FuncDecl:
					fn = x.Name.Name
				case *ast.CallExpr:
					sel, ok := x.Fun.(*ast.SelectorExpr)
					if !ok || sel.Sel.Name != "Errorf" || len(x.Args) == 0 {
						return true
					}
					id, ok := sel.X.(*ast.Ident)
					if !ok || (id.Name != "cerrors" && id.Name != "xerrors") {
						return true
					}
					format, ok := constString(x.Args[0])
					if !ok {
						return true
					}
					calls++
					rep.Eval()
					rep.Transitions(1)
					nw := strings.Count(strings.ReplaceAll(format, "%%", ""), "%w")
					rel, _ := filepath.Rel(root, path)
					rep.State(fmt.Sprintf("%s:%s:%q", rel, fn, format))
					if nw <= 1 {
						return true
					}
					multi++
					rep.Nontrivial(fmt.Sprintf("%s:%s:%q", rel, fn, format))
					probeMultiW(rep, rel, fn, fset.Position(x.Pos()).Line, format, len(x.Args)-1)
				}
				return true
			})
			return nil
		})
	}
	rep.Bound("errorf_call_sites_scanned", calls)
	rep.Bound("multi_w_sites", multi)
	rep.Outcome(fmt.Sprintf("multi-w-sites=%d", multi))
	rep.Outcome("scanned")
	rep.Sample(map[string]any{"errorf_call_sites_scanned": calls, "multi_w_sites": multi})
	if calls < 100 {
		rep.Cap(fmt.Sprintf("only %d Errorf call sites found under %s: scan looks broken", calls, root))
	}
}

func constString(e ast.Expr) (string, bool) {
	switch x := e.(type) {
	case *ast.BasicLit:
		if x.Kind != token.STRING {
			return "", false
		}
		s, err := strconv.Unquote(x.Value)
		return s, err == nil
	case *ast.BinaryExpr:
		if x.Op != token.ADD {
			return "", false
		}
		a, ok1 := constString(x.X)
		b, ok2 := constString(x.Y)
		return a + b, ok1 && ok2
	case *ast.ParenExpr:
		return constString(x.X)
	}
	return "", false
}

// probeMultiW runs the real constructor with the site's exact format: every %w operand in turn is a coded, fatal error.
func probeMultiW(rep *verifkit.Report, file, fn string, line int, format string, nargs int) {
	verbs := verbList(format)
	for target := range verbs {
		if verbs[target] != 'w' {
			continue
		}
		args := make([]any, len(verbs))
		for i, v := range verbs {
			switch v {
			case 'w':
				args[i] = cerrors.New("other")
			case 'd':
				args[i] = 1
			default:
				args[i] = "x"
			}
		}
		args[target] = cerrors.FatalError(conduiterr.New(conduiterr.CodeNotFound, "coded"))
		err := cerrors.Errorf(format, args...)
		rep.Trace()
		ce, ok := conduiterr.Get(err)
		if !ok || ce.Code != conduiterr.CodeNotFound || !cerrors.IsFatalError(err) {
			rep.AddViolation(verifkit.Violation{
				Key: fmt.Sprintf("C20/multi-%%w-site:%s:%s", file, fn),
				Text: fmt.Sprintf("%s:%d (%s) builds an error with cerrors.Errorf(%q): the constructor wraps at most one %%w operand, so the code and fatal mark of operand #%d are lost (coded=%v fatal=%v, message %q)",
					file, line, fn, format, target, ok, cerrors.IsFatalError(err), err.Error()),
				Replay: map[string]any{"file": file, "func": fn, "format": format, "classified_operand": target},
			})
			return
		}
	}
}

func verbList(format string) []byte {
	var out []byte
	for i := 0; i < len(format); i++ {
		if format[i] != '%' {
			continue
		}
		j := i + 1
		for j < len(format) && strings.ContainsRune("+-# 0123456789.[]*", rune(format[j])) {
			j++
		}
		if j < len(format) {
			if format[j] != '%' {
				out = append(out, format[j])
			}
			i = j
		}
	}
	return out
}
