//go:build verif

// Package verifc09: C09 (conditional processor part) - for every input size <=4, every match pattern, every output
// length the plugin may return (0 .. kept+1) and every kind vector, the REAL RunnableProcessor.Process (built by the
// real processor.Service with a real condition) must not panic, must return non-matching records unchanged in their
// original slot and must keep every result aligned with the record it belongs to.
package verifc09

import (
	"context"
	"fmt"
	"strings"
	"testing"

	"github.com/conduitio/conduit-commons/opencdc"
	sdk "github.com/conduitio/conduit-processor-sdk"
	"github.com/conduitio/conduit/pkg/foundation/log"
	"github.com/conduitio/conduit/pkg/plugin/processor/egress"
	"github.com/conduitio/conduit/pkg/processor"
	"github.com/conduitio/conduit/pkg/verifkit"
)

// scripted plugin: returns exactly the scripted list of results for the records it is given.
type plug struct {
	sdk.UnimplementedProcessor
	out func(in []opencdc.Record) []sdk.ProcessedRecord
}

func (p *plug) Specification() (sdk.Specification, error) { return sdk.Specification{Name: "p"}, nil }
func (p *plug) Process(_ context.Context, in []opencdc.Record) []sdk.ProcessedRecord {
	return p.out(in)
}

type registry struct{ p *plug }

func (r registry) NewProcessor(context.Context, string, string, egress.Policy) (sdk.Processor, error) {
	return r.p, nil
}

func rec(i int, match string) opencdc.Record {
	return opencdc.Record{Position: opencdc.Position(fmt.Sprintf("p%d", i)), Operation: opencdc.OperationCreate,
		Metadata: opencdc.Metadata{"verif.match": match, "idx": fmt.Sprint(i)}, Key: opencdc.RawData(fmt.Sprint(i)), Payload: opencdc.Change{After: opencdc.RawData("v")}}
}

func TestVerifC09Cond(t *testing.T) {
	rep := verifkit.NewReport("C09", "condmerge")
	defer func() {
		if err := rep.Write(); err != nil {
			t.Fatal(err)
		}
		if rep.Violations() > 0 {
			t.Fail()
		}
	}()
	ctx := context.Background()
	p := &plug{}
	svc := processor.NewService(log.Nop(), verifkit.NewVDB(nil), registry{p})
	inst, err := svc.Create(ctx, "proc", "p", processor.Parent{ID: "pl", Type: processor.ParentTypePipeline}, processor.Config{Workers: 1}, processor.ProvisionTypeAPI, `{{ index .Metadata "verif.match" }}`)
	if err != nil {
		t.Fatal(err)
	}
	rp, err := svc.MakeRunnableProcessor(ctx, inst)
	if err != nil {
		t.Fatal(err)
	}
	kinds := []string{"single", "filter", "error"}
	maxN := 4
	if verifkit.Thorough() {
		maxN = 5
	}
	rep.Bound("max_inputs", maxN)
	for n := 1; n <= maxN; n++ {
		pow3 := 1
		for i := 0; i < n; i++ {
			pow3 *= 3
		}
		for pat := 0; pat < pow3; pat++ {
			// per record: 0 = does not match, 1 = matches, 2 = the condition cannot be evaluated. Evaluation stops at the
			// first such record: it gets an error result and nothing behind it is part of this call's output.
			var in []opencdc.Record
			kept, mask, errAt := 0, 0, -1
			x := pat
			for i := 0; i < n; i++ {
				d := x % 3
				x /= 3
				m := "false"
				switch {
				case d == 1:
					m = "true"
					if errAt < 0 {
						kept++
						mask |= 1 << i
					}
				case d == 2:
					m = "maybe"
					if errAt < 0 {
						errAt = i
					}
				}
				in = append(in, rec(i, m))
			}
			evaluated := n
			if errAt >= 0 {
				evaluated = errAt
			}
			for outLen := 0; outLen <= kept+1; outLen++ {
				if kept == 0 && outLen > 0 {
					continue // nothing matches: the plugin is not called at all
				}
				// every kind vector of that length (3^outLen), capped to vectors over the first 3 slots + repeated last kind
				nvec := 1
				for i := 0; i < outLen && i < 3; i++ {
					nvec *= len(kinds)
				}
				for vec := 0; vec < nvec; vec++ {
					for _, capSlack := range []int{0, 4} { // slices with and without spare capacity behave differently when re-sliced
						kv := make([]string, outLen)
						x := vec
						for i := 0; i < outLen; i++ {
							if i < 3 {
								kv[i] = kinds[x%len(kinds)]
								x /= len(kinds)
							} else {
								kv[i] = kv[2]
							}
						}
						caseName := fmt.Sprintf("n=%d pattern(base3,lsb=rec0)=%d errAt=%d outLen=%d kinds=%s cap+%d", n, pat, errAt, outLen, strings.Join(kv, ","), capSlack)
						p.out = func(got []opencdc.Record) []sdk.ProcessedRecord {
							out := make([]sdk.ProcessedRecord, 0, outLen+capSlack)
							for j := 0; j < outLen; j++ {
								var r opencdc.Record
								if j < len(got) {
									r = got[j].Clone()
								} else {
									r = rec(99, "y")
								}
								r.Metadata["processed"] = "1"
								switch kv[j] {
								case "single":
									out = append(out, sdk.SingleRecord(r))
								case "filter":
									out = append(out, sdk.FilterRecord{})
								default:
									out = append(out, sdk.ErrorRecord{Error: fmt.Errorf("bad %d", j)})
								}
							}
							return out
						}
						rep.Eval()
						rep.Transitions(1)
						rep.State(caseName)
						if outLen != kept {
							rep.Nontrivial(caseName)
						}
						var res []sdk.ProcessedRecord
						pan := func() (msg string) {
							defer func() {
								if r := recover(); r != nil {
									msg = fmt.Sprint(r)
								}
							}()
							res = rp.Process(ctx, in)
							return ""
						}()
						rep.Trace()
						bad := func(key, text string) {
							rep.AddViolation(verifkit.Violation{Key: "C09/" + key, Text: text + " [case " + caseName + "]", Replay: map[string]any{"n": n, "pattern": pat, "out_len": outLen, "kinds": kv, "cap_slack": capSlack}})
						}
						if pan != "" {
							bad("conditional-processor-panics", "RunnableProcessor.Process panicked: "+pan)
							rep.Outcome("panic")
							continue
						}
						rep.Outcome(fmt.Sprintf("len(out)-len(in)=%d", len(res)-len(in)))
						if outLen > kept {
							// more results than inputs: must be refused with an error result, never mis-assigned
							if len(res) != 1 {
								bad("conditional-processor-misaligned", fmt.Sprintf("plugin returned more results than inputs; expected a single error result, got %d results", len(res)))
							} else if _, ok := res[0].(sdk.ErrorRecord); !ok {
								bad("conditional-processor-misaligned", "plugin returned more results than inputs; expected an error result")
							}
							continue
						}
						if len(res) > len(in) {
							bad("conditional-processor-misaligned", fmt.Sprintf("%d results for %d inputs", len(res), len(in)))
							continue
						}
						if errAt >= 0 && outLen == kept {
							// everything before the record whose condition failed is answered, that record gets the error
							if len(res) != errAt+1 {
								bad("conditional-processor-misaligned", fmt.Sprintf("the condition of record %d cannot be evaluated: expected %d results (records before it + its error), got %d", errAt, errAt+1, len(res)))
								continue
							}
							if _, ok := res[errAt].(sdk.ErrorRecord); !ok {
								bad("conditional-processor-misaligned", fmt.Sprintf("slot %d should hold the condition error of record %d, got %T", errAt, errAt, res[errAt]))
								continue
							}
							res = res[:errAt]
						} else if len(res) > evaluated {
							res = res[:evaluated] // (short output + condition error: only the aligned prefix is checked)
						}
						// alignment: result j belongs to input j, for every j that has a result
						ki := 0
						for j := 0; j < len(res); j++ {
							matching := mask&(1<<j) != 0
							if !matching {
								sr, ok := res[j].(sdk.SingleRecord)
								if !ok || string(sr.Position) != fmt.Sprintf("p%d", j) || sr.Metadata["processed"] != "" {
									bad("conditional-processor-misaligned", fmt.Sprintf("record %d does not match the condition but slot %d of the result is %T %v (expected the unchanged record)", j, j, res[j], res[j]))
									break
								}
								continue
							}
							if ki >= outLen {
								bad("conditional-processor-misaligned", fmt.Sprintf("slot %d holds a result although the plugin returned only %d results for the %d matching records", j, outLen, kept))
								break
							}
							switch kv[ki] {
							case "single":
								sr, ok := res[j].(sdk.SingleRecord)
								if !ok || string(sr.Position) != fmt.Sprintf("p%d", j) || sr.Metadata["processed"] != "1" {
									bad("conditional-processor-misaligned", fmt.Sprintf("slot %d should hold the processed record %d, got %T %v", j, j, res[j], res[j]))
								}
							case "filter":
								if _, ok := res[j].(sdk.FilterRecord); !ok {
									bad("conditional-processor-misaligned", fmt.Sprintf("slot %d should hold the filter result of record %d, got %T", j, j, res[j]))
								}
							default:
								if _, ok := res[j].(sdk.ErrorRecord); !ok {
									bad("conditional-processor-misaligned", fmt.Sprintf("slot %d should hold the error result of record %d, got %T", j, j, res[j]))
								}
							}
							ki++
						}
						if pat == 7 && outLen == 1 && vec == 0 && capSlack == 0 {
							rep.Sample(map[string]any{"case": caseName, "results": fmt.Sprintf("%v", res)})
						}
					}
				}
			}
		}
	}
}
