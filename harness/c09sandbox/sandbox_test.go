//go:build verif

package builtin

import (
	"context"
	"errors"
	"fmt"
	"os"
	"runtime"
	"testing"
	"testing/synctest"
	"time"

	"github.com/conduitio/conduit/pkg/foundation/log"
	"github.com/conduitio/conduit/pkg/verifkit"
)

// C09 (d): the panic sandbox around built-in connector calls. Every behaviour of the plugin call {return, error, panic(error),
// panic(value), block until the context is cancelled} x the context {live, cancelled before, cancelled during} must make
// runSandbox return (no panic, no hang) with the documented result.
func TestVerifC09Sandbox(t *testing.T) {
	rep := verifkit.NewReport("C09", "sandbox")
	defer func() {
		if err := rep.Write(); err != nil {
			t.Fatal(err)
		}
		if rep.Violations() > 0 {
			t.Fail()
		}
	}()
	behaviours := []string{"return", "error", "panic-error", "panic-value", "panic-nil-error", "block"}
	ctxModes := []string{"live", "cancelled-before", "cancelled-during"}
	for _, b := range behaviours {
		for _, cm := range ctxModes {
			name := b + "/" + cm
			rep.Eval()
			rep.Transitions(1)
			rep.State(name)
			rep.Nontrivial(name)
			var res int
			var err error
			returned, panicked := false, ""
			func() {
				defer func() {
					if r := recover(); r != nil {
						panicked = fmt.Sprint(r)
						if os.Getenv("VERIF_DEBUG") != "" {
							buf := make([]byte, 1<<18)
							fmt.Printf("DEBUG %s: %s\n%s\n", name, panicked, buf[:runtime.Stack(buf, true)])
						}
					}
				}()
				synctest.Test(t, func(t *testing.T) {
					ctx, cancel := context.WithCancel(context.Background())
					defer cancel()
					if cm == "cancelled-before" {
						cancel()
					}
					f := func(ctx context.Context, req int) (int, error) {
						if cm == "cancelled-during" {
							cancel()
						}
						switch b {
						case "return":
							return req + 1, nil
						case "error":
							return 0, errors.New("plugin error")
						case "panic-error":
							panic(errors.New("plugin panic error"))
						case "panic-value":
							panic("plugin panic value")
						case "panic-nil-error":
							var e error
							panic(e)
						default:
							<-ctx.Done()
							return 0, ctx.Err()
						}
					}
					done := make(chan struct{})
					go func() {
						defer close(done)
						defer func() {
							if r := recover(); r != nil {
								panicked = fmt.Sprint(r)
							}
						}()
						res, err = runSandbox(f, ctx, 41, log.Nop(), "Call")
						returned = true
					}()
					synctest.Wait() // everything that can happen without the clock has happened
					blockedAsExpected := false
					select {
					case <-done:
					default:
						if b == "block" && cm == "live" {
							blockedAsExpected = true // the plugin call blocks and the context is live: waiting is correct
						}
					}
					if !blockedAsExpected {
						select {
						case <-done:
						case <-time.After(time.Hour): // virtual time: an hour without a result is a hang
						}
					}
					cancel() // let a blocked call go so that the bubble can end
					<-done
				})
			}()
			rep.Trace()
			bad := func(text string) {
				rep.AddViolation(verifkit.Violation{Key: "C09/sandbox", Text: name + ": " + text, Replay: map[string]any{"behaviour": b, "context": cm}})
			}
			switch {
			case panicked != "" && !(b == "panic-nil-error"):
				bad("the panic escaped the sandbox: " + panicked)
			case !returned && !(b == "block" && cm == "live"):
				bad("runSandbox did not return (hang)")
			case returned && cm == "live" && b == "return" && (res != 42 || err != nil):
				bad(fmt.Sprintf("wrong result %d %v", res, err))
			case returned && cm == "live" && (b == "error" || b == "panic-error" || b == "panic-value") && err == nil:
				bad("the failure of the plugin call was swallowed")
			}
			rep.Outcome(fmt.Sprintf("returned=%v err=%v panicked=%v", returned, err != nil, panicked != ""))
			rep.Sample(map[string]any{"case": name, "returned": returned, "err": fmt.Sprint(err)})
		}
	}
}
