//go:build verif

package processor

import (
	"context"
	"fmt"
	"net"
	"sort"
	"strings"
	"testing"
	"time"

	"github.com/conduitio/conduit-commons/config"
	"github.com/conduitio/conduit-commons/database/inmemory"
	sdk "github.com/conduitio/conduit-processor-sdk"
	"github.com/conduitio/conduit/pkg/foundation/log"
	"github.com/conduitio/conduit/pkg/plugin/processor/egress"
	"github.com/conduitio/conduit/pkg/verifkit"
)

// C18, clause "the effective policy is never broader than the operator's ceiling" - at the place where a policy is
// actually BOUND to a processor: processor.Service hands an egress.Policy to the plugin registry every time a processor
// is opened (cold start: MakeRunnableProcessor; live reconfigure: MakeRunnableProcessorForReconfigure). The part
// enumerates every pair (engine ceiling, per-processor request written as sdk.egress.* settings) of a small universe,
// creates the processor through the real service (Create / Update on a real store), opens it both ways and judges the
// policy the registry RECEIVED against the ceiling and the request - with an oracle that restates the property and does
// not call egress.ResolvePolicy.

type capturingRegistry struct{ got []egress.Policy }

func (r *capturingRegistry) NewProcessor(_ context.Context, _ string, _ string, p egress.Policy) (sdk.Processor, error) {
	r.got = append(r.got, p)
	return bindProc{}, nil
}

type bindProc struct{ sdk.UnimplementedProcessor }

func (bindProc) Specification() (sdk.Specification, error) {
	return sdk.Specification{Name: "verif"}, nil
}
func (bindProc) Configure(context.Context, config.Config) error { return nil }
func (bindProc) Open(context.Context) error                     { return nil }
func (bindProc) Teardown(context.Context) error                 { return nil }

var bindUniverse = []string{"https://api.example.com:443", "http://10.0.0.5:8080", "https://other.example.org:8443"}

type bindRequest struct {
	allow   int // subset mask of bindUniverse; 0 = the processor did not opt in
	refs    int // subset mask of {a, b}
	timeout string
	size    string
}

func (q bindRequest) settings() map[string]string {
	s := map[string]string{"some.plugin.param": "x"}
	var hosts []string
	for i, h := range bindUniverse {
		if q.allow&(1<<i) != 0 {
			hosts = append(hosts, h)
		}
	}
	if len(hosts) > 0 {
		s[egress.ConfigKeyAllow] = strings.Join(hosts, ",")
	}
	var refs []string
	if q.refs&1 != 0 {
		refs = append(refs, "a")
	}
	if q.refs&2 != 0 {
		refs = append(refs, "b")
	}
	if len(refs) > 0 {
		s[egress.ConfigKeySecretRefs] = strings.Join(refs, " ")
	}
	if q.timeout != "" {
		s[egress.ConfigKeyTimeout] = q.timeout
	}
	if q.size != "" {
		s[egress.ConfigKeyMaxResponseBytes] = q.size
	}
	return s
}

func bindKey(e egress.AllowEntry) string {
	return strings.ToLower(e.Scheme) + "://" + strings.ToLower(e.Host) + ":" + e.Port
}

func refSet(m int) map[string]struct{} {
	if m == 0 {
		return nil
	}
	out := map[string]struct{}{}
	if m&1 != 0 {
		out["a"] = struct{}{}
	}
	if m&2 != 0 {
		out["b"] = struct{}{}
	}
	return out
}

func keysOf(m map[string]struct{}) string {
	var k []string
	for x := range m {
		k = append(k, x)
	}
	sort.Strings(k)
	return strings.Join(k, ",")
}

// judge restates the property for one bound policy.
func judgeBinding(got egress.Policy, ceil egress.Policy, q bindRequest) (string, string) {
	optedIn := q.allow != 0
	if !optedIn || !ceil.Enabled {
		if got.Enabled || len(got.Allowlist) > 0 || len(got.SecretRefs) > 0 {
			return "enabled", "the bound policy is not deny-all although the processor did not opt in or the engine ceiling is closed"
		}
		return "", ""
	}
	reqHosts := map[string]bool{}
	for i, h := range bindUniverse {
		if q.allow&(1<<i) != 0 {
			es, _ := egress.ParseAllowlist(h)
			for _, e := range es {
				reqHosts[bindKey(e)] = true
			}
		}
	}
	ceilHosts := map[string]bool{}
	for _, e := range ceil.Allowlist {
		ceilHosts[bindKey(e)] = true
	}
	for _, e := range got.Allowlist {
		if !reqHosts[bindKey(e)] {
			return "hosts", "bound allowlist entry " + bindKey(e) + " was never requested by the processor"
		}
		if len(ceil.Allowlist) > 0 && !ceilHosts[bindKey(e)] {
			return "hosts", "bound allowlist entry " + bindKey(e) + " is outside the engine ceiling"
		}
	}
	reqRefs := refSet(q.refs)
	scoped := len(ceil.Allowlist) > 0 || len(ceil.SecretRefs) > 0
	for r := range got.SecretRefs {
		if _, ok := reqRefs[r]; !ok {
			return "secrets", "bound secret ref " + r + " was never requested by the processor"
		}
		if _, ok := ceil.SecretRefs[r]; scoped && !ok {
			return "secrets", "bound secret ref " + r + " is outside the secret scope the operator granted (" + keysOf(ceil.SecretRefs) + ")"
		}
	}
	if got.Timeout <= 0 || got.MaxResponseBytes <= 0 {
		return "bounds", fmt.Sprintf("bound policy has no positive bounds (timeout %v, size %d)", got.Timeout, got.MaxResponseBytes)
	}
	if ceil.Timeout > 0 && got.Timeout > ceil.Timeout {
		return "timeout", fmt.Sprintf("bound timeout %v exceeds the ceiling %v", got.Timeout, ceil.Timeout)
	}
	if ceil.MaxResponseBytes > 0 && got.MaxResponseBytes > ceil.MaxResponseBytes {
		return "size", fmt.Sprintf("bound max response size %d exceeds the ceiling %d", got.MaxResponseBytes, ceil.MaxResponseBytes)
	}
	wantT := egress.DefaultTimeout
	if q.timeout != "" {
		wantT, _ = time.ParseDuration(q.timeout)
	}
	if got.Timeout > wantT {
		return "timeout", fmt.Sprintf("bound timeout %v exceeds what the processor asked for (%v)", got.Timeout, wantT)
	}
	wantS := int64(egress.DefaultMaxResponseBytes)
	if q.size != "" {
		fmt.Sscan(q.size, &wantS)
	}
	if got.MaxResponseBytes > wantS {
		return "size", fmt.Sprintf("bound max response size %d exceeds what the processor asked for (%d)", got.MaxResponseBytes, wantS)
	}
	return "", ""
}

func TestVerifC18Binding(t *testing.T) {
	rep := verifkit.NewReport("C18", "binding")
	defer func() {
		if err := rep.Write(); err != nil {
			t.Fatal(err)
		}
		if rep.Violations() > 0 {
			t.Fail()
		}
	}()
	ctx := context.Background()
	shard, n := verifkit.Shard()
	timeouts := []time.Duration{0, 2 * time.Second, 120 * time.Second}
	sizes := []int64{0, 1024, 64 << 20}
	reqTimeouts := []string{"", "1s", "10m"}
	reqSizes := []string{"", "512", "67108864"}
	var requests []bindRequest
	for a := 0; a < 8; a++ {
		for r := 0; r < 4; r++ {
			for _, to := range reqTimeouts {
				for _, sz := range reqSizes {
					requests = append(requests, bindRequest{a, r, to, sz})
				}
			}
		}
	}
	idx := 0
	for ce := 0; ce < 2; ce++ {
		for ca := 0; ca < 8; ca++ {
			for cr := 0; cr < 4; cr++ {
				for _, ct := range timeouts {
					for _, cs := range sizes {
						idx++
						if idx%n != shard {
							continue
						}
						ceil := egress.Policy{Enabled: ce == 1, SecretRefs: refSet(cr), Timeout: ct, MaxResponseBytes: cs}
						for i, h := range bindUniverse {
							if ca&(1<<i) != 0 {
								es, err := egress.ParseAllowlist(h)
								if err != nil {
									t.Fatal(err)
								}
								ceil.Allowlist = append(ceil.Allowlist, es...)
							}
						}
						if ce == 0 {
							ceil = egress.DenyAll()
						}
						reg := &capturingRegistry{}
						svc := NewService(log.Nop(), &inmemory.DB{}, reg, WithEgressCeiling(ceil))
						for qi, q := range requests {
							// second request of the history: the "mirror" request (complement hosts, other bounds) - what a live
							// reconfigure rebinds to
							q2 := requests[(len(requests)-1-qi+7)%len(requests)]
							id := fmt.Sprintf("p%d", qi)
							reg.got = reg.got[:0]
							inst, err := svc.Create(ctx, id, "builtin:verif", Parent{ID: "pl", Type: ParentTypePipeline}, Config{Settings: q.settings(), Workers: 1}, ProvisionTypeAPI, "")
							if err != nil {
								t.Fatalf("create: %v", err)
							}
							reg.got = reg.got[:0] // Create dispenses a throw-away processor with deny-all; judged separately below
							check := func(phase string, got egress.Policy, q bindRequest) {
								rep.Eval()
								rep.Transitions(1)
								what, text := judgeBinding(got, ceil, q)
								out := "deny-all"
								if got.Enabled {
									out = fmt.Sprintf("enabled hosts=%d refs=%d", len(got.Allowlist), len(got.SecretRefs))
								}
								rep.Outcome(phase + ":" + out)
								if what != "" {
									rep.AddViolation(verifkit.Violation{Key: "C18/effective-policy-exceeds-ceiling/bound-at-" + phase + "/" + what,
										Text:   fmt.Sprintf("%s: %s (ceiling %+v, request settings %v, bound policy %+v)", phase, text, ceil, q.settings(), got),
										Replay: map[string]any{"ceiling_enabled": ce, "ceiling_allow": ca, "ceiling_refs": cr, "ceiling_timeout": ct.String(), "ceiling_size": cs, "request": fmt.Sprintf("%+v", q), "phase": phase}})
								}
							}
							rp, err := svc.MakeRunnableProcessor(ctx, inst)
							if err != nil || len(reg.got) != 1 {
								t.Fatalf("MakeRunnableProcessor: %v (policies captured %d)", err, len(reg.got))
							}
							check("start", reg.got[0], q)
							rep.State(fmt.Sprintf("%d|%d|%d|%v|%d|%+v", ce, ca, cr, ct, cs, q))
							// live reconfigure: the stored configuration changes while the processor runs, the rebuilt processor must be
							// bound to the policy of the NEW configuration, clamped by the same ceiling
							if _, err := svc.UpdateWhileRunning(ctx, id, "builtin:verif", Config{Settings: q2.settings(), Workers: 1}); err != nil {
								t.Fatalf("update: %v", err)
							}
							reg.got = reg.got[:0]
							if _, err := svc.MakeRunnableProcessorForReconfigure(ctx, inst); err != nil || len(reg.got) != 1 {
								t.Fatalf("MakeRunnableProcessorForReconfigure: %v (policies captured %d)", err, len(reg.got))
							}
							check("reconfigure", reg.got[0], q2)
							// restart after a stop: again the then-current configuration
							_ = rp.Teardown(ctx)
							reg.got = reg.got[:0]
							rp2, err := svc.MakeRunnableProcessor(ctx, inst)
							if err != nil || len(reg.got) != 1 {
								t.Fatalf("MakeRunnableProcessor (restart): %v (policies captured %d)", err, len(reg.got))
							}
							check("restart", reg.got[0], q2)
							_ = rp2.Teardown(ctx)
							if err := svc.Delete(ctx, id); err != nil {
								t.Fatalf("delete: %v", err)
							}
							rep.Trace()
						}
					}
				}
			}
		}
	}
	rep.Bound("ceilings", idx)
	rep.Bound("requests_per_ceiling", len(requests))
	_ = net.IPv4len
}
