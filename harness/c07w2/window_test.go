//go:build verif

package funnel

import (
	"fmt"
	"testing"

	"github.com/conduitio/conduit/pkg/verifkit"
)

// TestVerifC07WindowV2: the real v2 dlqWindow (batch calls Ack(n)/Nack(n)) against the reference model for every window
// size, threshold, outcome sequence and every partition of the sequence into batches of identical outcomes.
func TestVerifC07WindowV2(t *testing.T) {
	rep := verifkit.NewReport("C07", "window-v2")
	defer func() {
		if err := rep.Write(); err != nil {
			t.Fatal(err)
		}
		if rep.Violations() > 0 {
			t.Fail()
		}
	}()
	maxN, maxL := 5, 9
	if verifkit.Thorough() {
		maxN, maxL = 6, 12
	}
	shard, nsh := verifkit.Shard()
	k := 0
	for n := 0; n <= maxN; n++ {
		for th := 0; th <= maxN; th++ {
			k++
			if k%nsh != shard {
				continue
			}
			for l := 0; l <= maxL; l++ {
				for bits := 0; bits < 1<<l; bits++ {
					seq := make([]bool, l)
					for i := range seq {
						seq[i] = bits>>i&1 == 1
					}
					// reference decisions per outcome
					ref := verifkit.NewDLQRef(n, th)
					want := make([]bool, l)
					for i, nack := range seq {
						if nack {
							want[i] = ref.Nack()
						} else {
							ref.Ack()
							want[i] = true
						}
					}
					rep.State(fmt.Sprintf("%d/%d/%d/%d", n, th, l, bits))
					verifkit.Partitions(seq, func(sizes []int) {
						w := newDLQWindow(n, th)
						pos, bad := 0, -1
						for _, c := range sizes {
							if seq[pos] {
								got := w.Nack(c)
								exp := 0
								for exp < c && want[pos+exp] {
									exp++
								}
								if got != exp && bad < 0 {
									bad = pos
								}
							} else {
								w.Ack(c)
							}
							pos += c
						}
						rep.Eval()
						rep.Transitions(int64(len(sizes)))
						rep.Trace()
						if bad >= 0 {
							rep.AddViolation(verifkit.Violation{Key: "C07/window-decision/v2",
								Text:   fmt.Sprintf("v2 dlqWindow(size=%d, threshold=%d): outcome sequence %s (in order; a = ack, r = rejection) in batches %v: the batch starting at outcome %d tolerates a different number of rejections than the reference", n, th, seqStrW2(l, bits), sizes, bad),
								Replay: map[string]any{"size": n, "threshold": th, "len": l, "bits": bits, "batches": fmt.Sprint(sizes)}})
						}
					})
					rep.Outcome(fmt.Sprintf("frozen=%v", ref.Frozen))
				}
			}
		}
	}
	rep.Bound("window_size_max", maxN)
	rep.Bound("threshold_max", maxN)
	rep.Bound("sequence_length_max", maxL)
}

// seqStr renders an outcome sequence in order: a = ack, r = rejection.
func seqStrW2(l, bits int) string {
	b := make([]byte, l)
	for i := range b {
		b[i] = 'a'
		if bits>>i&1 == 1 {
			b[i] = 'r'
		}
	}
	return string(b)
}
