//go:build verif

// C19: registry installs an artifact only after integrity and trust checks, atomically.
package registry

import (
	"archive/tar"
	"bytes"
	"compress/gzip"
	"context"
	"crypto/ed25519"
	"crypto/sha256"
	"encoding/base64"
	"encoding/hex"
	"errors"
	"fmt"
	"io/fs"
	"net/http"
	"net/http/httptest"
	"os"
	"os/exec"
	"path/filepath"
	"runtime"
	"sort"
	"strconv"
	"strings"
	"testing"
	"time"

	json "github.com/goccy/go-json"

	"github.com/conduitio/conduit/pkg/foundation/atomicfile"
	"github.com/conduitio/conduit/pkg/foundation/cerrors/conduiterr"
	"github.com/conduitio/conduit/pkg/registry/index"
	"github.com/conduitio/conduit/pkg/registry/trust"
	"github.com/conduitio/conduit/pkg/verifkit"
)

func c19report(t *testing.T, part string) (*verifkit.Report, func()) {
	rep := verifkit.NewReport("C19", part)
	return rep, func() {
		if err := rep.Write(); err != nil {
			t.Fatal(err)
		}
		if rep.Violations() > 0 {
			t.Fail()
		}
	}
}

// treeDigest renders every file below root (path, type, mode, size, content hash, link target), excluding one subtree.
func treeDigest(root, exclude string) string {
	var lines []string
	_ = filepath.WalkDir(root, func(p string, d fs.DirEntry, err error) error {
		if err != nil {
			return nil
		}
		if exclude != "" && (p == exclude || strings.HasPrefix(p, exclude+string(filepath.Separator))) {
			if d.IsDir() {
				return filepath.SkipDir
			}
			return nil
		}
		info, err := os.Lstat(p)
		if err != nil {
			return nil
		}
		rel, _ := filepath.Rel(root, p)
		line := fmt.Sprintf("%s %s", rel, info.Mode().String())
		switch {
		case info.Mode()&os.ModeSymlink != 0:
			tgt, _ := os.Readlink(p)
			line += " -> " + tgt
		case info.Mode().IsRegular():
			b, _ := os.ReadFile(p)
			sum := sha256.Sum256(b)
			line += fmt.Sprintf(" %d %x", info.Size(), sum[:6])
		}
		lines = append(lines, line)
		return nil
	})
	sort.Strings(lines)
	return strings.Join(lines, "\n")
}

type tarEntry struct {
	Name string
	Type byte
	Link string
	Body string
	Lie  int // declared size = len(Body)+Lie
}

func (e tarEntry) String() string {
	return fmt.Sprintf("{%q type=%c link=%q size%+d}", e.Name, e.Type, e.Link, e.Lie)
}

func buildArchive(entries []tarEntry) []byte {
	var buf bytes.Buffer
	gz := gzip.NewWriter(&buf)
	tw := tar.NewWriter(gz)
	for _, e := range entries {
		h := &tar.Header{Name: e.Name, Typeflag: e.Type, Linkname: e.Link, Mode: 0o755}
		if e.Type == tar.TypeReg {
			h.Size = int64(len(e.Body))
		}
		if err := tw.WriteHeader(h); err != nil {
			continue
		}
		if e.Type == tar.TypeReg {
			_, _ = tw.Write([]byte(e.Body))
		}
	}
	_ = tw.Close()
	_ = gz.Close()
	return buf.Bytes()
}

// TestVerifC19Archives: every entry sequence up to the bound over hostile names x entry types x link targets goes through
// the real ExtractBinary into a private staging directory; nothing outside that directory may change.
func TestVerifC19Archives(t *testing.T) {
	rep, done := c19report(t, "archives")
	defer done()
	names := []string{"bin", "a/b", "../x", "/abs", "a/../../x", ".", "", "dir/", "../staging2/evil", "..", "a/../b", strings.Repeat("n", 300), "sentinel.txt", "../sentinel.txt", "./../outside/file"}
	types := []byte{tar.TypeReg, tar.TypeDir, tar.TypeSymlink, tar.TypeLink, tar.TypeChar, tar.TypeFifo, tar.TypeXGlobalHeader}
	links := []string{"", "../sentinel.txt", "/etc/passwd", "bin"}
	var alphabet []tarEntry
	for _, n := range names {
		for _, ty := range types {
			if ty == tar.TypeSymlink || ty == tar.TypeLink {
				for _, l := range links[1:] {
					alphabet = append(alphabet, tarEntry{Name: n, Type: ty, Link: l})
				}
				continue
			}
			alphabet = append(alphabet, tarEntry{Name: n, Type: ty, Body: "payload-" + n})
		}
	}
	depth := 2
	if verifkit.Thorough() {
		depth = 3
	}
	rep.Bound("entry_alphabet", len(alphabet))
	rep.Bound("max_entries", depth)
	shard, nsh := verifkit.Shard()
	base := t.TempDir()
	idx := 0
	outcomes := map[string]int{}
	deadline := verifkit.Deadline(120*time.Second, 25*time.Minute)
	stopped := false
	thirdNames := map[string]bool{"bin": true, "../x": true, "a/../../x": true, "sentinel.txt": true, "../sentinel.txt": true, "./../outside/file": true}
	var run func(seq []tarEntry)
	run = func(seq []tarEntry) {
		if len(seq) > 0 {
			idx++
			if idx%nsh == shard {
				root := filepath.Join(base, "case")
				_ = os.RemoveAll(root)
				staging := filepath.Join(root, "staging")
				_ = os.MkdirAll(staging, 0o700)
				_ = os.MkdirAll(filepath.Join(root, "outside"), 0o755)
				_ = os.WriteFile(filepath.Join(root, "sentinel.txt"), []byte("keep"), 0o644)
				_ = os.WriteFile(filepath.Join(root, "outside", "file"), []byte("keep"), 0o644)
				archive := filepath.Join(root, "archive.tgz")
				_ = os.WriteFile(archive, buildArchive(seq), 0o644)
				before := treeDigest(root, staging)
				var got string
				var err error
				pan := func() (msg string) {
					defer func() {
						if r := recover(); r != nil {
							msg = fmt.Sprint(r)
						}
					}()
					got, err = ExtractBinary(archive, staging)
					return ""
				}()
				rep.Eval()
				rep.Trace()
				rep.Transitions(int64(len(seq)))
				key := fmt.Sprint(seq)
				rep.State(key)
				bad := func(k, text string) {
					rep.AddViolation(verifkit.Violation{Key: "C19/" + k, Text: text + " [archive entries " + key + "]", Replay: map[string]any{"entries": seq}})
				}
				if pan != "" {
					bad("extract-panics", "ExtractBinary panicked: "+pan)
				}
				if after := treeDigest(root, staging); after != before {
					bad("archive-writes-outside-staging", fmt.Sprintf("extracting the archive changed files outside the private staging directory:\n--- before\n%s\n--- after\n%s", before, after))
				}
				if err == nil {
					rel, rerr := filepath.Rel(staging, got)
					if rerr != nil || strings.HasPrefix(rel, "..") {
						bad("archive-candidate-outside-staging", "ExtractBinary returned a binary path outside staging: "+got)
					}
					rep.Nontrivial(key)
					outcomes["extracted"]++
				} else {
					outcomes["refused"]++
				}
				// nothing inside staging may be a link (a later rename/chmod would follow it)
				_ = filepath.WalkDir(staging, func(p string, d fs.DirEntry, _ error) error {
					if d != nil && d.Type()&os.ModeSymlink != 0 {
						bad("archive-creates-link", "a symlink was created in staging: "+p)
					}
					return nil
				})
				if idx%2999 == 7 {
					rep.Sample(map[string]any{"entries": key, "result": got, "error": fmt.Sprint(err)})
				}
			}
		}
		if len(seq) == depth {
			return
		}
		for _, e := range alphabet {
			if depth == 3 && len(seq) == 2 && (e.Type != tar.TypeReg && e.Type != tar.TypeSymlink || !thirdNames[e.Name]) {
				continue // third entries: regular files and symlinks over the escaping names only (keeps depth 3 tractable)
			}
			if stopped {
				return
			}
			if idx%512 == 0 && time.Now().After(deadline) {
				stopped = true
				rep.Cap(fmt.Sprintf("wall-clock budget reached after %d archives of the enumeration", idx))
				return
			}
			run(append(append([]tarEntry{}, seq...), e))
		}
	}
	run(nil)
	for k := range outcomes {
		rep.Outcome(k)
	}
}

// ---- install sequences -------------------------------------------------------------------------------------------------

type artVerifier struct{ mode string }

func (v artVerifier) VerifyArtifact(_ context.Context, _ ArtifactRef, id trust.PinnedIdentity) (VerifyResult, error) {
	switch v.mode {
	case "accept":
		return VerifyResult{Signed: true, VerifiedIdentity: "verif:" + id.OIDCIssuer}, nil
	case "reject":
		return VerifyResult{}, conduiterr.New(conduiterr.CodeInvalidArgument, "signature does not verify")
	default:
		return VerifyResult{}, errors.New("verifier crashed")
	}
}

type step struct {
	Version  int64  // index.version
	Role     string // root | freshness
	Content  string // A | B (connector content; B also has another artifact digest claim)
	Digest   string // ok | bad (declared digest matches the served bytes?)
	Verifier string // accept | reject | error
	DryRun   bool
}

func (s step) String() string {
	return fmt.Sprintf("{v%d %s content%s digest=%s verifier=%s dry=%v}", s.Version, s.Role, s.Content, s.Digest, s.Verifier, s.DryRun)
}

// TestVerifC19Installs: every sequence (depth <= 3) of installs against indexes of different versions / signing roles / content,
// with matching or wrong digests and accepting / rejecting / failing artifact verifiers, through the real Install and the real
// TrustedVerifier. Reference: an install may place the artifact iff the index was acceptable (signature ok, not older than the
// highest version ever accepted, freshness-only signatures only over already root-verified content), the digest matched and
// the verifier accepted; the recorded high-water mark is the highest accepted version and never decreases.
func TestVerifC19Installs(t *testing.T) {
	rep, done := c19report(t, "installs")
	defer done()
	const name = "verifconn"
	rootPub, rootPriv, _ := ed25519.GenerateKey(nil)
	freshPub, freshPriv, _ := ed25519.GenerateKey(nil)
	rootKeyID, _ := index.KeyID(rootPub)
	freshKeyID, _ := index.KeyID(freshPub)
	mkArchive := func(tag string) []byte {
		return buildArchive([]tarEntry{{Name: "conduit-connector-" + name, Type: tar.TypeReg, Body: "binary-" + tag}})
	}
	archives := map[string][]byte{"A": mkArchive("A"), "B": mkArchive("B")}
	mux := http.NewServeMux()
	srv := httptest.NewServer(mux)
	defer srv.Close()
	for tag, a := range archives {
		a := a
		mux.HandleFunc("/artifact-"+tag+".tar.gz", func(w http.ResponseWriter, _ *http.Request) { _, _ = w.Write(a) })
	}
	mux.HandleFunc("/sig.json", func(w http.ResponseWriter, _ *http.Request) { _, _ = w.Write([]byte(`{"sig":"x"}`)) })
	work := t.TempDir()
	nIndex := 0
	writeIndex := func(s step) string {
		digest := sha256.Sum256(archives[s.Content])
		dg := hex.EncodeToString(digest[:])
		if s.Digest == "bad" {
			dg = strings.Repeat("0", 64)
		}
		ver := "1.0.0"
		if s.Content == "B" {
			ver = "2.0.0"
		}
		payload := index.Payload{SchemaVersion: 1, Index: index.IndexMeta{Version: s.Version, Timestamp: time.Now().UTC()},
			Connectors: []index.Connector{{Name: name,
				Publisher: index.Publisher{ExpectedOIDCIssuer: "https://token.actions.githubusercontent.com", ExpectedIdentityPattern: `^https://github\.com/example/.*$`},
				Versions: []index.ConnectorVersion{{Version: ver, MinConduitVersion: "0.1.0", MinProtocolVersion: "0.1.0",
					Artifacts: []index.Artifact{{OS: runtime.GOOS, Arch: runtime.GOARCH, Kind: StandaloneArtifactKind, URL: srv.URL + "/artifact-" + s.Content + ".tar.gz",
						SHA256: dg, Size: int64(len(archives[s.Content])), Signature: index.SignatureRef{BundleURL: srv.URL + "/sig.json"}}}}}}}}
		raw, _ := json.Marshal(payload)
		canonical, _ := index.Canonicalize(raw)
		keyID, sig := rootKeyID, ed25519.Sign(rootPriv, canonical)
		if s.Role == "freshness" {
			keyID, sig = freshKeyID, ed25519.Sign(freshPriv, canonical)
		}
		env, _ := json.Marshal(map[string]any{"payload": json.RawMessage(raw), "signatures": []map[string]any{{"role": s.Role, "keyId": keyID, "algorithm": "ed25519", "signature": base64.StdEncoding.EncodeToString(sig)}}})
		nIndex++
		p := filepath.Join(work, "index-"+strconv.Itoa(nIndex)+".json")
		_ = os.WriteFile(p, env, 0o600)
		return p
	}
	var alphabet []step
	for _, v := range []int64{10, 11, 12} {
		for _, role := range []string{"root", "freshness"} {
			for _, c := range []string{"A", "B"} {
				alphabet = append(alphabet, step{Version: v, Role: role, Content: c, Digest: "ok", Verifier: "accept"})
			}
		}
		alphabet = append(alphabet, step{Version: v, Role: "root", Content: "A", Digest: "ok", Verifier: "accept", DryRun: true},
			step{Version: v, Role: "freshness", Content: "A", Digest: "ok", Verifier: "accept", DryRun: true})
	}
	alphabet = append(alphabet,
		step{Version: 11, Role: "root", Content: "A", Digest: "bad", Verifier: "accept"},
		step{Version: 11, Role: "root", Content: "A", Digest: "ok", Verifier: "reject"},
		step{Version: 11, Role: "root", Content: "A", Digest: "ok", Verifier: "error"},
		step{Version: 11, Role: "root", Content: "B", Digest: "bad", Verifier: "reject"})
	depth := 3
	rep.Bound("install_alphabet", len(alphabet))
	rep.Bound("max_history", depth)
	shard, nsh := verifkit.Shard()
	idx := 0
	var explore func(hist []step)
	explore = func(hist []step) {
		if len(hist) > 0 {
			idx++
			if idx%nsh == shard {
				runInstallHistory(t, rep, name, hist, writeIndex, rootKeyID, rootPub, freshKeyID, freshPub, idx, false)
				if len(hist) <= 2 {
					// non-initial start state: files nobody verified already sit at the names the artifacts are installed under
					// (a hand-dropped binary, the leftover of an install whose manifest was lost)
					runInstallHistory(t, rep, name, hist, writeIndex, rootKeyID, rootPub, freshKeyID, freshPub, idx, true)
				}
			}
		}
		if len(hist) == depth {
			return
		}
		for _, s := range alphabet {
			if len(hist) == 2 && (s.DryRun || s.Digest == "bad" && s.Verifier == "reject") && !verifkit.Thorough() {
				continue
			}
			explore(append(append([]step{}, hist...), s))
		}
	}
	explore(nil)
}

func runInstallHistory(t *testing.T, rep *verifkit.Report, name string, hist []step, writeIndex func(step) string,
	rootKeyID string, rootPub ed25519.PublicKey, freshKeyID string, freshPub ed25519.PublicKey, idx int, foreign bool) {
	connectorsPath, err := os.MkdirTemp("", "verif-c19-conn-")
	if err != nil {
		t.Fatal(err)
	}
	defer os.RemoveAll(connectorsPath)
	if foreign {
		for _, f := range installedFileNames(t, name, hist, writeIndex, rootKeyID, rootPub, freshKeyID, freshPub) {
			if err := os.WriteFile(filepath.Join(connectorsPath, f), []byte("foreign-bytes"), 0o755); err != nil {
				t.Fatal(err)
			}
		}
	}
	statePath := IndexStatePath(connectorsPath)
	tv := &TrustedVerifier{Anchors: index.TrustAnchors{Roots: map[string]ed25519.PublicKey{rootKeyID: rootPub}, Freshness: map[string]ed25519.PublicKey{freshKeyID: freshPub}}, StatePath: statePath}
	// reference state
	highWater := int64(0)
	rootContent := "" // content last verified under a root signature
	installed := ""   // content of the installed artifact ("" none)
	key := fmt.Sprint(hist)
	if foreign {
		key = "foreign files at the final names + " + key
	}
	rep.State(key)
	bad := func(k, text string) {
		rep.AddViolation(verifkit.Violation{Key: "C19/" + k, Text: text + " [install history " + key + "]", Replay: map[string]any{"history": hist, "foreign_files": foreign}})
	}
	for si, s := range hist {
		opts := InstallOptions{Name: name, ConnectorsPath: connectorsPath, IndexFile: writeIndex(s), IndexVerifier: tv, ArtifactVerifier: artVerifier{s.Verifier},
			RunningConduitVersion: "0.14.0", RunningProtocolVersion: "0.1.0", DryRun: s.DryRun, LockTimeout: 2 * time.Second}
		_, err := Install(context.Background(), opts)
		rep.Eval()
		rep.Trace()
		rep.Transitions(1)
		// reference decision about the index
		// the content subtree a root signature vouches for includes the declared digests: a freshness-only signature is
		// acceptable only over exactly the subtree that was last verified under a root signature
		contentKey := s.Content + "/" + s.Digest
		indexOK := s.Version >= highWater && (s.Role == "root" || (rootContent != "" && rootContent == contentKey))
		if indexOK {
			if s.Version > highWater {
				highWater = s.Version
			}
			if s.Role == "root" {
				rootContent = contentKey
			}
		}
		mayInstall := indexOK && s.Digest == "ok" && s.Verifier == "accept" && !s.DryRun
		// observed
		var files []string
		entries, _ := os.ReadDir(connectorsPath)
		for _, e := range entries {
			if e.Name() != ".registry" && !strings.HasPrefix(e.Name(), ".") {
				files = append(files, e.Name())
			}
		}
		gotContent := ""
		for _, f := range files {
			if b, rerr := os.ReadFile(filepath.Join(connectorsPath, f)); rerr == nil && strings.HasPrefix(string(b), "binary-") {
				gotContent = strings.TrimPrefix(string(b), "binary-")
			}
		}
		st, _ := index.LoadState(statePath)
		// what an install that passed every gate reports as done must be what sits in the install directory: the bytes
		// of the verified artifact, under the name it is run from - not whatever was there before
		if mayInstall && err == nil {
			for _, f := range files {
				if b, rerr := os.ReadFile(filepath.Join(connectorsPath, f)); rerr == nil && string(b) == "foreign-bytes" && strings.HasSuffix(f, versionOf(s.Content)) {
					bad("installed-file-is-not-the-verified-artifact", fmt.Sprintf("step %d %s: the install succeeded (digest checked, verifier accepted) but %s still holds bytes that were never verified", si+1, s, f))
				}
			}
		}
		if !mayInstall && gotContent != installed {
			bad("artifact-installed-without-passing-every-gate", fmt.Sprintf("step %d %s: the install directory changed (now %v, content %q) although index acceptable=%v, digest=%s, verifier=%s, dry-run=%v (err=%v)", si+1, s, files, gotContent, indexOK, s.Digest, s.Verifier, s.DryRun, firstLineC19(err)))
		}
		if mayInstall {
			if err != nil {
				// an install of an ALREADY installed version may be refused/no-op; only flag when nothing of that content is there
				if gotContent != s.Content {
					// refusing an install is never a violation of the property (it only says when an artifact may appear);
					// recorded so that a run in which nothing is ever installed is visible
					rep.Outcome("valid-install-refused")
				}
			}
			if gotContent == s.Content {
				installed = s.Content
			}
		}
		if !indexOK && err == nil {
			bad("unacceptable-index-accepted", fmt.Sprintf("step %d %s: the index is older than the highest accepted version (%d) or not covered by a root signature, yet the call succeeded", si+1, s, highWater))
		}
		if st.Version < highWater {
			bad("high-water-mark-behind", fmt.Sprintf("step %d %s: the recorded index high-water mark is %d but version %d has been accepted", si+1, s, st.Version, highWater))
		}
		if st.Version > highWater {
			bad("high-water-mark-ahead", fmt.Sprintf("step %d %s: the recorded high-water mark %d is above every accepted version (%d): an unaccepted index advanced it", si+1, s, st.Version, highWater))
		}
		rep.Outcome(fmt.Sprintf("indexOK=%v mayInstall=%v err=%v", indexOK, mayInstall, err != nil))
	}
	if len(hist) > 1 {
		rep.Nontrivial(key)
	}
	if idx%1499 == 3 {
		rep.Sample(map[string]any{"history": key, "high_water": highWater, "installed": installed})
	}
}

func versionOf(content string) string {
	if content == "B" {
		return "2.0.0"
	}
	return "1.0.0"
}

var installedNamesCache = map[string]string{}

// installedFileNames learns, from real fault-free installs in a scratch directory, under which file names the
// artifacts of the history's contents are installed.
func installedFileNames(t *testing.T, name string, hist []step, writeIndex func(step) string,
	rootKeyID string, rootPub ed25519.PublicKey, freshKeyID string, freshPub ed25519.PublicKey) []string {
	var out []string
	for _, c := range []string{"A", "B"} {
		used := false
		for _, s := range hist {
			used = used || s.Content == c
		}
		if !used {
			continue
		}
		if f, ok := installedNamesCache[c]; ok {
			out = append(out, f)
			continue
		}
		dir, err := os.MkdirTemp("", "verif-c19-names-")
		if err != nil {
			t.Fatal(err)
		}
		tv := &TrustedVerifier{Anchors: index.TrustAnchors{Roots: map[string]ed25519.PublicKey{rootKeyID: rootPub}, Freshness: map[string]ed25519.PublicKey{freshKeyID: freshPub}}, StatePath: IndexStatePath(dir)}
		s := step{Version: 10, Role: "root", Content: c, Digest: "ok", Verifier: "accept"}
		_, err = Install(context.Background(), InstallOptions{Name: name, ConnectorsPath: dir, IndexFile: writeIndex(s), IndexVerifier: tv, ArtifactVerifier: artVerifier{"accept"},
			RunningConduitVersion: "0.14.0", RunningProtocolVersion: "0.1.0", LockTimeout: 2 * time.Second})
		if err != nil {
			t.Fatalf("reference install of content %s failed: %v", c, err)
		}
		entries, _ := os.ReadDir(dir)
		for _, e := range entries {
			if !strings.HasPrefix(e.Name(), ".") {
				installedNamesCache[c] = e.Name()
				out = append(out, e.Name())
			}
		}
		os.RemoveAll(dir)
	}
	return out
}

func firstLineC19(err error) string {
	if err == nil {
		return "nil"
	}
	s := err.Error()
	if i := strings.Index(s, "\n"); i >= 0 {
		s = s[:i]
	}
	if len(s) > 220 {
		s = s[:220]
	}
	return s
}

// ---- crash points of the atomic write, at syscall granularity -------------------------------------------------------------

// TestVerifC19CrashHelper is the victim process: it replaces the state file (and a manifest-sized file) through the real code.
func TestVerifC19CrashHelper(t *testing.T) {
	dir := os.Getenv("VERIF_C19_HELPER_DIR")
	if dir == "" {
		t.Skip("helper")
	}
	if err := index.SaveState(filepath.Join(dir, "index-state.json"), index.State{Version: 2, LastVerifiedContentHash: strings.Repeat("b", 64)}); err != nil {
		fmt.Println("HELPER-ERROR", err)
		os.Exit(7)
	}
	if err := atomicfile.WriteFile(filepath.Join(dir, "blob.bin"), bytes.Repeat([]byte("NEW-BLOB-"), 4000), 0o644); err != nil {
		fmt.Println("HELPER-ERROR", err)
		os.Exit(7)
	}
	// the real install-manifest writer (not only the primitive underneath it)
	if err := SaveManifest(filepath.Join(dir, "manifest.json"), crashManifest("new", 60)); err != nil {
		fmt.Println("HELPER-ERROR", err)
		os.Exit(7)
	}
	os.Exit(0)
}

// crashManifest builds an install manifest of n entries (several KiB on disk).
func crashManifest(tag string, n int) *Manifest {
	m := &Manifest{SchemaVersion: ManifestSchemaVersion, Installs: map[string]ManifestEntry{}}
	for i := 0; i < n; i++ {
		m.Installs[fmt.Sprintf("conn-%s-%03d@1.0.%d", tag, i, i)] = ManifestEntry{}
	}
	return m
}

// TestVerifC19Crash kills the helper with SIGKILL at EVERY file-system syscall boundary of the real write path (strace fault
// injection) and, separately, makes every such syscall fail with EIO; afterwards each file must be either the previous or the
// new complete content.
func TestVerifC19Crash(t *testing.T) {
	rep, done := c19report(t, "crash")
	defer done()
	if _, err := exec.LookPath("strace"); err != nil {
		rep.Cap("strace not available: syscall-level crash points not enumerated")
		rep.EvalN(1)
		rep.State("no-strace")
		rep.State("no-strace-2")
		rep.Sample("strace missing")
		return
	}
	self, _ := os.Executable()
	syscalls := "openat,write,fsync,fdatasync,rename,renameat,renameat2,fchmodat,fchmod,chmod,close,unlink,unlinkat"
	oldState, _ := json.Marshal(index.State{Version: 1, LastVerifiedContentHash: strings.Repeat("a", 64)})
	newState, _ := json.Marshal(index.State{Version: 2, LastVerifiedContentHash: strings.Repeat("b", 64)})
	oldBlob := bytes.Repeat([]byte("old-blob-"), 3000)
	newBlob := bytes.Repeat([]byte("NEW-BLOB-"), 4000)
	oldManifest, _ := json.MarshalIndent(crashManifest("old", 40), "", "  ")
	// fresh = first write ever (no previous files: afterwards each file is absent or complete), existing = replacement
	fresh := false
	prepare := func() string {
		dir, _ := os.MkdirTemp("", "verif-c19-crash-")
		if !fresh {
			_ = os.WriteFile(filepath.Join(dir, "index-state.json"), oldState, 0o644)
			_ = os.WriteFile(filepath.Join(dir, "blob.bin"), oldBlob, 0o644)
			_ = os.WriteFile(filepath.Join(dir, "manifest.json"), oldManifest, 0o644)
		}
		return dir
	}
	runHelper := func(dir, inject string) (string, error) {
		args := []string{"-f", "-qq", "-o", "/dev/null"}
		if inject != "" {
			args = append(args, "-e", "inject="+syscalls+":"+inject)
		} else {
			args = []string{"-f", "-qq", "-c", "-e", "trace=" + syscalls, "-o", filepath.Join(dir, "strace-count.txt")}
		}
		args = append(args, self, "-test.run", "^TestVerifC19CrashHelper$")
		cmd := exec.Command("strace", args...)
		// one OS thread running Go code and no preemption signals: the helper's file-system syscalls then have the same
		// ordinals in every run (otherwise runtime threads interleave their own openat/close calls)
		cmd.Env = append(os.Environ(), "VERIF_C19_HELPER_DIR="+dir, "GOMAXPROCS=1", "GODEBUG=asyncpreemptoff=1")
		out, err := cmd.CombinedOutput()
		return string(out), err
	}
	for _, fresh = range []bool{false, true} {
		// measure N from an uninjected run
		dir := prepare()
		if out, err := runHelper(dir, ""); err != nil {
			rep.Cap("uninjected helper run under strace failed: " + err.Error() + " " + out)
			os.RemoveAll(dir)
			rep.EvalN(1)
			rep.State("strace-failed")
			rep.State("strace-failed-2")
			rep.Sample("strace failed")
			return
		}
		total := 0
		if b, err := os.ReadFile(filepath.Join(dir, "strace-count.txt")); err == nil {
			for _, l := range strings.Split(string(b), "\n") {
				f := strings.Fields(l)
				if len(f) >= 4 && strings.Contains(syscalls, f[len(f)-1]) && f[len(f)-1] != "total" {
					n, _ := strconv.Atoi(f[3])
					total += n
				}
			}
		}
		os.RemoveAll(dir)
		if total < 10 || total > 2000 {
			rep.Cap(fmt.Sprintf("implausible number of file-system syscalls measured: %d", total))
			total = 200
		}
		rep.Bound(fmt.Sprintf("file_syscalls_in_write_path_fresh_%v", fresh), total)
		check := func(kind string, k int, dir string, helperOut string) {
			// the manifest is read back through the real loader: it must parse and hold exactly the previous or the new installs
			mode := map[bool]string{true: "first write", false: "replacement"}[fresh]
			rep.Eval()
			if m, err := LoadManifest(filepath.Join(dir, "manifest.json")); err != nil {
				rep.AddViolation(verifkit.Violation{Key: "C19/torn-file-after-interruption/manifest.json",
					Text:   fmt.Sprintf("%s at file-system syscall #%d of the %s left an install manifest that cannot be loaded: %q", kind, k, mode, firstLineC19(err)),
					Replay: map[string]any{"kind": kind, "syscall_index": k, "fresh": fresh}})
			} else if n := len(m.Installs); !(n == 60 || (!fresh && n == 40) || (fresh && n == 0)) {
				rep.AddViolation(verifkit.Violation{Key: "C19/torn-file-after-interruption/manifest.json",
					Text:   fmt.Sprintf("%s at file-system syscall #%d of the %s left an install manifest with %d entries: neither the previous nor the new one", kind, k, mode, n),
					Replay: map[string]any{"kind": kind, "syscall_index": k, "fresh": fresh}})
			}
			for file, pair := range map[string][2][]byte{"index-state.json": {oldState, newState}, "blob.bin": {oldBlob, newBlob}} {
				got, err := os.ReadFile(filepath.Join(dir, file))
				rep.Eval()
				if fresh && os.IsNotExist(err) {
					continue // first write: "previous" = no file
				}
				if err != nil || (!bytes.Equal(got, pair[0]) && !bytes.Equal(got, pair[1])) || (fresh && bytes.Equal(got, pair[0])) {
					rep.AddViolation(verifkit.Violation{Key: "C19/torn-file-after-interruption/" + file,
						Text:   fmt.Sprintf("%s at file-system syscall #%d of the write path left %s neither the previous nor the new complete file (err=%v, %d bytes, starts %q)", kind, k, file, err, len(got), string(got[:min(len(got), 40)])),
						Replay: map[string]any{"kind": kind, "syscall_index": k}})
				}
			}
			// no temp files may be mistaken for the real ones: the directory may hold leftovers, but only with the temp suffix
			entries, _ := os.ReadDir(dir)
			for _, e := range entries {
				n := e.Name()
				if n != "index-state.json" && n != "manifest.json" && n != "blob.bin" && !strings.HasSuffix(n, ".tmp") && !strings.HasPrefix(n, "strace") {
					rep.AddViolation(verifkit.Violation{Key: "C19/unexpected-file-after-interruption", Text: fmt.Sprintf("%s at syscall #%d left an unexpected file %q", kind, k, n), Replay: map[string]any{"kind": kind, "syscall_index": k}})
				}
			}
		}
		shard, nsh := verifkit.Shard()
		for k := 1; k <= total; k++ {
			if k%nsh != shard {
				continue
			}
			for _, kind := range []string{"signal=KILL", "error=EIO", "error=ENOSPC"} {
				dir := prepare()
				out, _ := runHelper(dir, kind+":when="+strconv.Itoa(k))
				rep.Trace()
				rep.Transitions(1)
				rep.State(fmt.Sprintf("%s@%d fresh=%v", kind, k, fresh))
				rep.Nontrivial(fmt.Sprintf("%s@%d fresh=%v", kind, k, fresh))
				check(kind, k, dir, out)
				if k == 7 && kind == "signal=KILL" {
					entries, _ := os.ReadDir(dir)
					var names []string
					for _, e := range entries {
						names = append(names, e.Name())
					}
					rep.Sample(map[string]any{"inject": kind, "syscall_index": k, "directory_after": names})
				}
				os.RemoveAll(dir)
			}
		}
	}
	rep.Outcome("old-or-new")
	rep.Outcome("leftover-temp-allowed")
}

// ---- concurrent VerifyIndex: every order -------------------------------------------------------------------------------------

// TestVerifC19ConcurrentIndex runs 2-3 VerifyIndex calls with different versions so that they enter the locked section in every
// order, each one parked inside the critical section (at the existing chaos point) while the next ones are already waiting for
// the lock. The recorded high-water mark must end at the highest version accepted and an older index must be refused.
func TestVerifC19ConcurrentIndex(t *testing.T) {
	rep, done := c19report(t, "concurrent")
	defer done()
	rootPub, rootPriv, _ := ed25519.GenerateKey(nil)
	rootKeyID, _ := index.KeyID(rootPub)
	mk := func(version int64) []byte {
		payload := index.Payload{SchemaVersion: 1, Index: index.IndexMeta{Version: version, Timestamp: time.Now().UTC()}}
		raw, _ := json.Marshal(payload)
		canonical, _ := index.Canonicalize(raw)
		env, _ := json.Marshal(map[string]any{"payload": json.RawMessage(raw), "signatures": []map[string]any{{"role": "root", "keyId": rootKeyID, "algorithm": "ed25519", "signature": base64.StdEncoding.EncodeToString(ed25519.Sign(rootPriv, canonical))}}})
		return env
	}
	perms := [][]int64{{5, 6}, {6, 5}, {5, 6, 7}, {5, 7, 6}, {6, 5, 7}, {6, 7, 5}, {7, 5, 6}, {7, 6, 5}, {6, 6, 5}, {7, 7, 7}}
	defer func() { chaosHook = nil }()
	for _, perm := range perms {
		dir, _ := os.MkdirTemp("", "verif-c19-idx-")
		statePath := filepath.Join(dir, "index-state.json")
		tv := &TrustedVerifier{Anchors: index.TrustAnchors{Roots: map[string]ed25519.PublicKey{rootKeyID: rootPub}}, StatePath: statePath, LockTimeout: 20 * time.Second}
		inSection := make(chan int64, 8)
		release := make(chan struct{})
		var current int64
		chaosHook = func(point string) {
			if point == chaosPointIndexStateBeforeWrite {
				inSection <- current
				<-release
			}
		}
		results := make(chan struct {
			v   int64
			err error
		}, 8)
		// start the calls one by one: each must reach the critical section (and park there) before the next is started, so the
		// later ones queue on the lock while an earlier one is INSIDE it; then release them in order.
		started := 0
		for _, v := range perm {
			v := v
			current = v
			go func() {
				_, err := tv.VerifyIndex(context.Background(), mk(v))
				results <- struct {
					v   int64
					err error
				}{v, err}
			}()
			started++
			// the first call parks inside; later calls either get refused before the section (rollback check happens inside the
			// lock, so they wait) - we only wait for the FIRST to be inside, then release one at a time
			if started == 1 {
				select {
				case <-inSection:
				case r := <-results:
					t.Fatalf("the first VerifyIndex call did not reach the locked write: %v", r.err)
				}
			}
		}
		accepted := int64(0)
		highest := int64(0)
		account := func(v int64, err error) {
			if err == nil && v < highest {
				rep.AddViolation(verifkit.Violation{Key: "C19/older-index-accepted-concurrently", Text: fmt.Sprintf("order %v: index version %d was accepted after version %d had been accepted", perm, v, highest), Replay: map[string]any{"order": perm}})
			}
			if err == nil && v > highest {
				highest = v
			}
			if err == nil && v > accepted {
				accepted = v
			}
		}
		pending, parked := len(perm), 1 // the first call is parked inside the critical section
	outer:
		for pending > 0 {
			if parked > 0 {
				release <- struct{}{} // let the call inside the section write the state and leave
				parked--
			}
			for { // until the next waiter is inside the section (parked) or everybody has returned
				select {
				case r := <-results:
					pending--
					account(r.v, r.err)
					if pending == 0 {
						break outer
					}
				case <-inSection:
					parked++
					continue outer
				}
			}
		}
		st, _ := index.LoadState(statePath)
		rep.Eval()
		rep.Trace()
		rep.Transitions(int64(len(perm)))
		rep.State(fmt.Sprint(perm))
		rep.Nontrivial(fmt.Sprint(perm))
		if st.Version != accepted {
			rep.AddViolation(verifkit.Violation{Key: "C19/high-water-mark-after-concurrent-installs", Text: fmt.Sprintf("order %v: the recorded high-water mark is %d but the highest accepted version is %d", perm, st.Version, accepted), Replay: map[string]any{"order": perm}})
		}
		rep.Outcome(fmt.Sprintf("mark=%d", st.Version))
		rep.Sample(map[string]any{"order": perm, "mark": st.Version, "accepted": accepted})
		chaosHook = nil
		os.RemoveAll(dir)
	}
}

// ---- gate matrix --------------------------------------------------------------------------------------------------------

// verifier behaviours of the gate matrix: "unsigned-ok" returns success WITHOUT having verified a signature
type gateVerifier struct {
	mode  string
	calls *int
	seen  *ArtifactRef // what the verifier was handed (last call)
}

func (v gateVerifier) VerifyArtifact(_ context.Context, ref ArtifactRef, id trust.PinnedIdentity) (VerifyResult, error) {
	*v.calls++
	if v.seen != nil {
		*v.seen = ref
	}
	switch v.mode {
	case "accept":
		return VerifyResult{Signed: true, VerifiedIdentity: "verif:" + id.OIDCIssuer}, nil
	case "unsigned-ok":
		return VerifyResult{Signed: false}, nil
	case "reject":
		return VerifyResult{}, conduiterr.New(conduiterr.CodeInvalidArgument, "signature does not verify")
	default:
		return VerifyResult{}, errors.New("verifier crashed")
	}
}

// TestVerifC19Gates: the full matrix digest {ok, bad} x fetch {ok, artifact missing, artifact truncated, artifact with
// trailing garbage, signature bundle missing} x verifier {accept, success-without-signature, reject, error} x
// --allow-unsigned x every combination of the six policy signals (operator policy, MCP, TTY, CI, env var, typed
// confirmation) x dry-run through the real Install. Reference: the artifact appears in the install directory iff the bytes
// were fetched completely, match the declared digest, and EITHER (no --allow-unsigned) the verifier accepted a signature
// (and its bundle could be fetched) OR (--allow-unsigned) the operator policy allows it, the caller is not the MCP tool, and
// the confirmation required for the context (env var when non-interactive, typed confirmation when interactive) was given.
func TestVerifC19Gates(t *testing.T) {
	rep, done := c19report(t, "gates")
	defer done()
	const name = "verifconn"
	rootPub, rootPriv, _ := ed25519.GenerateKey(nil)
	rootKeyID, _ := index.KeyID(rootPub)
	archive := buildArchive([]tarEntry{{Name: "conduit-connector-" + name, Type: tar.TypeReg, Body: "binary-A"}})
	mux := http.NewServeMux()
	srv := httptest.NewServer(mux)
	defer srv.Close()
	mux.HandleFunc("/artifact-ok.tar.gz", func(w http.ResponseWriter, _ *http.Request) { _, _ = w.Write(archive) })
	mux.HandleFunc("/artifact-truncated.tar.gz", func(w http.ResponseWriter, _ *http.Request) { _, _ = w.Write(archive[:len(archive)/2]) })
	mux.HandleFunc("/artifact-trailing.tar.gz", func(w http.ResponseWriter, _ *http.Request) {
		_, _ = w.Write(archive)
		_, _ = w.Write([]byte("trailing garbage"))
	})
	mux.HandleFunc("/sig.json", func(w http.ResponseWriter, _ *http.Request) { _, _ = w.Write([]byte(`{"sig":"x"}`)) })
	mux.HandleFunc("/prov-artifact.json", func(w http.ResponseWriter, _ *http.Request) { _, _ = w.Write([]byte(`{"prov":"artifact"}`)) })
	mux.HandleFunc("/prov-version.json", func(w http.ResponseWriter, _ *http.Request) { _, _ = w.Write([]byte(`{"prov":"version"}`)) })
	work := t.TempDir()
	type gcase struct {
		Digest, Fetch, Verifier                         string
		AllowUnsigned, Operator, MCP, TTY, CI, Env, Typ bool
		DryRun                                          bool
	}
	writeIndex := func(c gcase, n int) string {
		digest := sha256.Sum256(archive)
		dg := hex.EncodeToString(digest[:])
		if c.Digest == "bad" {
			dg = strings.Repeat("0", 64)
		}
		url, sigURL := srv.URL+"/artifact-ok.tar.gz", srv.URL+"/sig.json"
		switch c.Fetch {
		case "artifact-missing":
			url = srv.URL + "/no-such-artifact.tar.gz"
		case "artifact-truncated":
			url = srv.URL + "/artifact-truncated.tar.gz"
		case "artifact-trailing":
			url = srv.URL + "/artifact-trailing.tar.gz"
		case "bundle-missing":
			sigURL = srv.URL + "/no-such-sig.json"
		}
		// SLSA provenance declared by the index: at the artifact, at the version, at both (the artifact's wins); reachable or not
		var artProv, verProv *index.ProvenanceRef
		switch c.Fetch {
		case "prov-artifact-ok":
			artProv = &index.ProvenanceRef{BundleURL: srv.URL + "/prov-artifact.json", PredicateType: "https://slsa.dev/provenance/v1"}
		case "prov-version-ok":
			verProv = &index.ProvenanceRef{BundleURL: srv.URL + "/prov-version.json", PredicateType: "https://slsa.dev/provenance/v1"}
		case "prov-artifact-missing":
			artProv = &index.ProvenanceRef{BundleURL: srv.URL + "/no-such-prov.json", PredicateType: "https://slsa.dev/provenance/v1"}
		case "prov-version-missing":
			verProv = &index.ProvenanceRef{BundleURL: srv.URL + "/no-such-prov.json", PredicateType: "https://slsa.dev/provenance/v1"}
		case "prov-artifact-missing-version-ok":
			artProv = &index.ProvenanceRef{BundleURL: srv.URL + "/no-such-prov.json", PredicateType: "https://slsa.dev/provenance/v1"}
			verProv = &index.ProvenanceRef{BundleURL: srv.URL + "/prov-version.json", PredicateType: "https://slsa.dev/provenance/v1"}
		}
		payload := index.Payload{SchemaVersion: 1, Index: index.IndexMeta{Version: 10, Timestamp: time.Now().UTC()},
			Connectors: []index.Connector{{Name: name,
				Publisher: index.Publisher{ExpectedOIDCIssuer: "https://token.actions.githubusercontent.com", ExpectedIdentityPattern: `^https://github\.com/example/.*$`},
				Versions: []index.ConnectorVersion{{Version: "1.0.0", MinConduitVersion: "0.1.0", MinProtocolVersion: "0.1.0", SLSAProvenance: verProv,
					Artifacts: []index.Artifact{{OS: runtime.GOOS, Arch: runtime.GOARCH, Kind: StandaloneArtifactKind, URL: url,
						SHA256: dg, Size: int64(len(archive)), Signature: index.SignatureRef{BundleURL: sigURL}, SLSAProvenance: artProv}}}}}}}
		raw, _ := json.Marshal(payload)
		canonical, _ := index.Canonicalize(raw)
		env, _ := json.Marshal(map[string]any{"payload": json.RawMessage(raw), "signatures": []map[string]any{{"role": "root", "keyId": rootKeyID, "algorithm": "ed25519", "signature": base64.StdEncoding.EncodeToString(ed25519.Sign(rootPriv, canonical))}}})
		p := filepath.Join(work, "gate-index-"+strconv.Itoa(n)+".json")
		_ = os.WriteFile(p, env, 0o600)
		return p
	}
	shard, nsh := verifkit.Shard()
	n := 0
	tableDeviations, installedCases, tableExample := 0, 0, ""
	bools := []bool{false, true}
	for _, dg := range []string{"ok", "bad"} {
		for _, fetch := range []string{"ok", "artifact-missing", "artifact-truncated", "artifact-trailing", "bundle-missing",
			"prov-artifact-ok", "prov-version-ok", "prov-artifact-missing", "prov-version-missing", "prov-artifact-missing-version-ok"} {
			for _, ver := range []string{"accept", "unsigned-ok", "reject", "error"} {
				for _, allow := range bools {
					for sig := 0; sig < 64; sig++ {
						if !allow && sig != 0 && sig != 63 {
							continue // the policy signals are only consulted with --allow-unsigned: all-off and all-on suffice
						}
						for _, dry := range bools {
							n++
							if n%nsh != shard {
								continue
							}
							c := gcase{Digest: dg, Fetch: fetch, Verifier: ver, AllowUnsigned: allow, DryRun: dry,
								Operator: sig&1 != 0, MCP: sig&2 != 0, TTY: sig&4 != 0, CI: sig&8 != 0, Env: sig&16 != 0, Typ: sig&32 != 0}
							connectorsPath, err := os.MkdirTemp("", "verif-c19-gate-")
							if err != nil {
								t.Fatal(err)
							}
							calls := 0
							var seen ArtifactRef
							tv := &TrustedVerifier{Anchors: index.TrustAnchors{Roots: map[string]ed25519.PublicKey{rootKeyID: rootPub}}, StatePath: IndexStatePath(connectorsPath)}
							opts := InstallOptions{Name: name, ConnectorsPath: connectorsPath, IndexFile: writeIndex(c, n), IndexVerifier: tv,
								ArtifactVerifier: gateVerifier{c.Verifier, &calls, &seen}, RunningConduitVersion: "0.14.0", RunningProtocolVersion: "0.1.0",
								DryRun: c.DryRun, LockTimeout: 2 * time.Second, InstalledBy: "verif",
								AllowUnsigned: c.AllowUnsigned, OperatorAllowUnsigned: c.Operator, IsMCP: c.MCP, TTY: c.TTY, CIEnv: c.CI, EnvVarSet: c.Env, TypedConfirmation: c.Typ}
							_, ierr := Install(context.Background(), opts)
							_ = os.Remove(opts.IndexFile)
							rep.Eval()
							rep.Trace()
							rep.Transitions(1)
							key := fmt.Sprintf("%+v", c)
							rep.State(key)
							// a declared provenance bundle that cannot be fetched is, like a missing signature bundle, a failed trust gate of
							// the signed path (the artifact's own reference is the applicable one when both levels declare one)
							provMissing := c.Fetch == "prov-artifact-missing" || c.Fetch == "prov-version-missing" || c.Fetch == "prov-artifact-missing-version-ok"
							provDeclared := provMissing || c.Fetch == "prov-artifact-ok" || c.Fetch == "prov-version-ok"
							fetched := c.Fetch == "ok" || c.Fetch == "bundle-missing" || provDeclared
							policyOK := c.Operator && !c.MCP && ((!c.TTY || c.CI) && c.Env || (c.TTY && !c.CI) && c.Typ)
							trusted := false
							if c.AllowUnsigned {
								trusted = policyOK
							} else {
								trusted = c.Verifier == "accept" && c.Fetch != "bundle-missing" && !provMissing
							}
							may := fetched && c.Digest == "ok" && trusted && !c.DryRun
							// what the PROPERTY demands is weaker than the documented policy table: unsigned installs need the
							// operator's explicit permission (and the request); the finer table (MCP never, env var when
							// non-interactive, typed confirmation when interactive) is compared and reported as an observation only
							trustedLoose := trusted || (c.AllowUnsigned && c.Operator)
							mayLoose := fetched && c.Digest == "ok" && trustedLoose && !c.DryRun
							var files []string
							entries, _ := os.ReadDir(connectorsPath)
							for _, e := range entries {
								if !strings.HasPrefix(e.Name(), ".") {
									files = append(files, e.Name())
								}
							}
							bad := func(k, text string) {
								rep.AddViolation(verifkit.Violation{Key: "C19/" + k, Text: text + " [case " + key + "]", Replay: map[string]any{"case": c}})
							}
							if !mayLoose && len(files) > 0 {
								bad("artifact-installed-without-passing-every-gate", fmt.Sprintf("the install directory contains %v although fetched=%v digest=%s verifier=%s allow-unsigned=%v operator-policy=%v dry-run=%v; Install returned %v", files, fetched, c.Digest, c.Verifier, c.AllowUnsigned, c.Operator, c.DryRun, firstLineC19(ierr)))
							}
							if !mayLoose && !c.DryRun && ierr == nil {
								bad("install-reported-success-without-passing-every-gate", "Install returned nil although a gate must refuse")
							}
							if (len(files) > 0) != may {
								tableDeviations++
								if tableExample == "" {
									tableExample = fmt.Sprintf("%s: installed=%v, documented policy table says %v (%v)", key, len(files) > 0, may, firstLineC19(ierr))
								}
							}
							if len(files) > 0 {
								installedCases++
							}
							if !c.AllowUnsigned && len(files) > 0 && provDeclared {
								want := `{"prov":"artifact"}`
								if c.Fetch == "prov-version-ok" {
									want = `{"prov":"version"}`
								}
								if string(seen.ProvenanceBundle) != want {
									bad("installed-without-the-declared-provenance-being-verified", fmt.Sprintf("the index declares SLSA provenance for the artifact (%s) and the artifact was installed through the signed path, but the verifier was handed provenance %q instead of the declared bundle %q", c.Fetch, seen.ProvenanceBundle, want))
								}
							}
							if (c.Digest == "bad" || !fetched) && calls > 0 {
								bad("verifier-consulted-on-corrupt-bytes", fmt.Sprintf("the artifact verifier was called %d time(s) although the downloaded bytes do not match the declared digest / were not fetched completely", calls))
							}
							// leftovers: nothing but the registry's private directory may remain after a refused install
							if len(files) == 0 {
								if m, lerr := LoadManifest(manifestPath(connectorsPath)); lerr == nil && len(m.Installs) > 0 {
									bad("manifest-entry-without-install", fmt.Sprintf("the install manifest lists %d connector(s) although nothing was installed", len(m.Installs)))
								}
							}
							rep.Outcome(fmt.Sprintf("may=%v err=%v", may, ierr != nil))
							if len(files) > 0 || ierr == nil {
								rep.Nontrivial(key)
							}
							if n%997 == 5 {
								rep.Sample(map[string]any{"case": key, "may_install": may, "error": firstLineC19(ierr), "files": files})
							}
							os.RemoveAll(connectorsPath)
						}
					}
				}
			}
		}
	}
	rep.Bound("cases", n)
	rep.Extra("cases_with_artifact_installed", installedCases)
	rep.Extra("deviations_from_documented_policy_table", tableDeviations)
	if tableExample != "" {
		rep.Extra("policy_table_deviation_example", tableExample)
	}
	if installedCases == 0 && nsh == 1 {
		rep.Cap("no case of the matrix installed the artifact: the positive side of the gate was not exercised")
	}
}

// ---- VerifyIndex histories under file-system faults ------------------------------------------------------------------------------

func histKeys() (ed25519.PublicKey, ed25519.PrivateKey, string) {
	priv := ed25519.NewKeyFromSeed(bytes.Repeat([]byte{7}, ed25519.SeedSize))
	pub := priv.Public().(ed25519.PublicKey)
	id, _ := index.KeyID(pub)
	return pub, priv, id
}

func histIndex(version int64) []byte {
	_, priv, id := histKeys()
	payload := index.Payload{SchemaVersion: 1, Index: index.IndexMeta{Version: version, Timestamp: time.Now().UTC()}}
	raw, _ := json.Marshal(payload)
	canonical, _ := index.Canonicalize(raw)
	env, _ := json.Marshal(map[string]any{"payload": json.RawMessage(raw), "signatures": []map[string]any{{"role": "root", "keyId": id, "algorithm": "ed25519", "signature": base64.StdEncoding.EncodeToString(ed25519.Sign(priv, canonical))}}})
	return env
}

// TestVerifC19IndexHistoryHelper is the victim process of TestVerifC19IndexFaults: it offers the validly signed indexes
// named in VERIF_C19_HIST (e.g. "5,10,7") to ONE TrustedVerifier, in order, and reports which were accepted.
func TestVerifC19IndexHistoryHelper(t *testing.T) {
	dir := os.Getenv("VERIF_C19_HIST_DIR")
	if dir == "" {
		t.Skip("helper")
	}
	pub, _, id := histKeys()
	tv := &TrustedVerifier{Anchors: index.TrustAnchors{Roots: map[string]ed25519.PublicKey{id: pub}}, StatePath: filepath.Join(dir, "index-state.json"), LockTimeout: 2 * time.Second}
	for _, f := range strings.Split(os.Getenv("VERIF_C19_HIST"), ",") {
		v, _ := strconv.ParseInt(f, 10, 64)
		_, err := tv.VerifyIndex(context.Background(), histIndex(v))
		fmt.Printf("OFFER v=%d accepted=%v err=%s\n", v, err == nil, firstLineC19(err))
	}
	os.Exit(0)
}

// TestVerifC19IndexFaults: "an index older than one already accepted is refused", under every single file-system fault.
// For each history of three offers (versions in every relevant order) the helper process runs under strace and its
// K-th file-system syscall fails with EACCES / EROFS / EIO / ENOSPC, for EVERY K of the run (the count is measured on an
// uninjected run). Oracle on what the helper reports: whatever failed, an offer is never accepted when a NEWER index was
// accepted earlier in the same history; and the recorded mark never ends below the newest accepted version.
func TestVerifC19IndexFaults(t *testing.T) {
	rep, done := c19report(t, "index-faults")
	defer done()
	if _, err := exec.LookPath("strace"); err != nil {
		rep.Cap("strace not available: fault points not enumerated")
		rep.EvalN(1)
		rep.State("no-strace")
		rep.State("no-strace-2")
		rep.Sample("strace missing")
		return
	}
	self, _ := os.Executable()
	syscalls := "openat,write,fsync,fdatasync,rename,renameat,renameat2,fchmodat,fchmod,chmod,unlink,unlinkat,mkdirat,mkdir"
	run := func(dir, hist, inject string) string {
		args := []string{"-f", "-qq", "-o", "/dev/null"}
		if inject != "" {
			args = append(args, "-e", "inject="+syscalls+":"+inject)
		} else {
			args = []string{"-f", "-qq", "-c", "-e", "trace=" + syscalls, "-o", filepath.Join(dir, "strace-count.txt")}
		}
		args = append(args, self, "-test.run", "^TestVerifC19IndexHistoryHelper$")
		cmd := exec.Command("strace", args...)
		cmd.Env = append(os.Environ(), "VERIF_C19_HIST_DIR="+dir, "VERIF_C19_HIST="+hist, "GOMAXPROCS=1", "GODEBUG=asyncpreemptoff=1")
		out, _ := cmd.CombinedOutput()
		return string(out)
	}
	histories := []string{"5,10,7", "5,10,5", "10,7,8"}
	if verifkit.Thorough() {
		histories = append(histories, "5,7,6", "7,7,5", "5,10,9")
	}
	shard, nsh := verifkit.Shard()
	job := 0
	for _, hist := range histories {
		dir, _ := os.MkdirTemp("", "verif-c19-hist-")
		base := run(dir, hist, "")
		total := 0
		if b, err := os.ReadFile(filepath.Join(dir, "strace-count.txt")); err == nil {
			for _, l := range strings.Split(string(b), "\n") {
				f := strings.Fields(l)
				if len(f) >= 4 && f[len(f)-1] != "total" && strings.Contains(","+syscalls+",", ","+f[len(f)-1]+",") {
					n, _ := strconv.Atoi(f[3])
					total += n
				}
			}
		}
		os.RemoveAll(dir)
		if !strings.Contains(base, "OFFER") || total < 5 || total > 3000 {
			rep.Cap(fmt.Sprintf("history %s: the uninjected helper run is implausible (%d file-system syscalls): %s", hist, total, firstLineC19(errors.New(base))))
			continue
		}
		rep.Bound("file_syscalls_history_"+hist, total)
		judge := func(what, out, dir string) {
			rep.Eval()
			newest := int64(-1)
			var accepted []int64
			for _, l := range strings.Split(out, "\n") {
				var v int64
				var acc bool
				if n, _ := fmt.Sscanf(l, "OFFER v=%d accepted=%t", &v, &acc); n == 2 && acc {
					if v < newest {
						rep.AddViolation(verifkit.Violation{Key: "C19/older-index-accepted-after-a-newer-one",
							Text:   fmt.Sprintf("history %s, %s: index version %d was ACCEPTED although version %d had been accepted before (accepted so far %v); helper output: %s", hist, what, v, newest, accepted, strings.ReplaceAll(out, "\n", " | ")),
							Replay: map[string]any{"history": hist, "inject": what}})
					}
					accepted = append(accepted, v)
					if v > newest {
						newest = v
					}
				}
			}
			if st, err := index.LoadState(filepath.Join(dir, "index-state.json")); err == nil && newest >= 0 && int64(st.Version) < newest {
				rep.AddViolation(verifkit.Violation{Key: "C19/high-water-mark-behind-an-accepted-index",
					Text:   fmt.Sprintf("history %s, %s: the recorded mark is %d but version %d was accepted (accepted %v)", hist, what, st.Version, newest, accepted),
					Replay: map[string]any{"history": hist, "inject": what}})
			}
			rep.Outcome(fmt.Sprintf("%s accepted=%v", hist, accepted))
		}
		d0, _ := os.MkdirTemp("", "verif-c19-hist-")
		judge("no fault", run(d0, hist, "error=EIO:when=100000"), d0)
		os.RemoveAll(d0)
		for k := 1; k <= total; k++ {
			for _, kind := range []string{"error=EACCES", "error=EROFS", "error=EIO", "error=ENOSPC"} {
				job++
				if job%nsh != shard {
					continue
				}
				d, _ := os.MkdirTemp("", "verif-c19-hist-")
				what := fmt.Sprintf("%s at file-system syscall #%d", kind, k)
				out := run(d, hist, kind+":when="+strconv.Itoa(k))
				rep.Trace()
				rep.Transitions(1)
				rep.State(hist + " " + what)
				rep.Nontrivial(hist + " " + what)
				judge(what, out, d)
				os.RemoveAll(d)
			}
		}
	}
}
