//go:build verif

package funnel

import (
	"context"
	"errors"
	"fmt"
	"os"
	"strings"
	"testing"

	"github.com/conduitio/conduit-commons/opencdc"
	"github.com/conduitio/conduit/pkg/foundation/cerrors"
	"github.com/conduitio/conduit/pkg/verifkit"
)

// C04 / C01, mechanism "multiAckNacker": at a destination fan-out of the funnel engine M branches vote ack / nack per
// source position, concurrently; the tally turns the votes into exactly one parent call per position, in source order,
// ack only when unanimous. Every vote runs under the tally's mutex from its first to its last statement (including the
// parent call), so every concurrent execution is equivalent to ONE serial order of the vote calls: the part enumerates
// ALL of them - every vote vector of M branches x N positions, every way a branch groups its contiguous acks into
// calls, every interleaving of the branches' call sequences (each branch votes in position order), and for each the
// variant where the k-th call to the parent fails (plain / fatal error), for every k - on the real unexported type, and
// compares the parent's call log after EVERY vote with a reference: the successful parent calls, flattened, are exactly
// the maximal decided prefix of the positions - in order, nothing skipped, nothing twice; a position is acked only
// after all M acks, nacked with the error and task of the FIRST branch that nacked it; a refused parent call is
// reported to the voter (fatal when the nack came from a processor task).

type tallyCall struct {
	branch   int
	from, to int // positions [from, to)
	nack     bool
}

type parentLog struct {
	calls   int
	failAt  int // 1-based index of the parent call that fails (0 = none)
	failErr error
	flat    []string // successful calls, flattened: "ack:<i>" / "nack:<i>:<err>:<task>"
	posIdx  map[string]int
}

func (p *parentLog) Ack(_ context.Context, b *Batch) error {
	p.calls++
	if p.calls == p.failAt {
		return p.failErr
	}
	for _, pos := range b.positions {
		p.flat = append(p.flat, fmt.Sprintf("ack:%d", p.posIdx[string(pos)]))
	}
	return nil
}

func (p *parentLog) Nack(_ context.Context, b *Batch, taskID string) error {
	p.calls++
	if p.calls == p.failAt {
		return p.failErr
	}
	for i, pos := range b.positions {
		e := "<nil>"
		if b.recordStatuses[i].Error != nil {
			e = b.recordStatuses[i].Error.Error()
		}
		p.flat = append(p.flat, fmt.Sprintf("nack:%d:%s:%s", p.posIdx[string(pos)], e, taskID))
	}
	return nil
}

// compositions of n into ordered positive parts
func compositions(n int) [][]int {
	if n == 0 {
		return [][]int{{}}
	}
	var out [][]int
	for first := 1; first <= n; first++ {
		for _, rest := range compositions(n - first) {
			out = append(out, append([]int{first}, rest...))
		}
	}
	return out
}

// callSequences lists every way branch b can cast the votes v (true = ack) as calls, in position order.
func callSequences(b int, v []bool) [][]tallyCall {
	out := [][]tallyCall{{}}
	i := 0
	for i < len(v) {
		if !v[i] {
			for k := range out {
				out[k] = append(out[k], tallyCall{branch: b, from: i, to: i + 1, nack: true})
			}
			i++
			continue
		}
		j := i
		for j < len(v) && v[j] {
			j++
		}
		var next [][]tallyCall
		for _, comp := range compositions(j - i) {
			for _, seq := range out {
				s := append([]tallyCall{}, seq...)
				at := i
				for _, part := range comp {
					s = append(s, tallyCall{branch: b, from: at, to: at + part})
					at += part
				}
				next = append(next, s)
			}
		}
		out = next
		i = j
	}
	return out
}

func interleavings(seqs [][]tallyCall, f func([]tallyCall)) {
	idx := make([]int, len(seqs))
	var cur []tallyCall
	var rec func()
	rec = func() {
		done := true
		for b := range seqs {
			if idx[b] < len(seqs[b]) {
				done = false
				cur = append(cur, seqs[b][idx[b]])
				idx[b]++
				rec()
				idx[b]--
				cur = cur[:len(cur)-1]
			}
		}
		if done {
			f(cur)
		}
	}
	rec()
}

func TestVerifC04Tally(t *testing.T) {
	rep := verifkit.NewReport(verifPropOr("C04"), "fanout-tally")
	defer func() {
		if err := rep.Write(); err != nil {
			t.Fatal(err)
		}
		if rep.Violations() > 0 {
			t.Fail()
		}
	}()
	shard, nsh := verifkit.Shard()
	shapes := [][2]int{{2, 1}, {2, 2}, {2, 3}, {3, 1}, {3, 2}}
	if verifkit.Thorough() {
		shapes = append(shapes, [2]int{3, 3}, [2]int{2, 4})
	}
	ctx := context.Background()
	caseNo := 0
	for _, sh := range shapes {
		M, N := sh[0], sh[1]
		recs := make([]opencdc.Record, N)
		positions := make([]opencdc.Position, N)
		posIdx := map[string]int{}
		for i := range recs {
			positions[i] = opencdc.Position(fmt.Sprintf("p%d", i))
			recs[i] = opencdc.Record{Position: positions[i]}
			posIdx[string(positions[i])] = i
		}
		for votes := 0; votes < 1<<(M*N); votes++ {
			caseNo++
			if caseNo%nsh != shard {
				continue
			}
			v := make([][]bool, M)
			var perBranch [][][]tallyCall
			for b := 0; b < M; b++ {
				v[b] = make([]bool, N)
				for i := 0; i < N; i++ {
					v[b][i] = votes>>(b*N+i)&1 == 1
				}
				perBranch = append(perBranch, callSequences(b, v[b]))
			}
			// choose one call sequence per branch (cartesian product)
			choice := make([]int, M)
			for {
				seqs := make([][]tallyCall, M)
				for b := range seqs {
					seqs[b] = perBranch[b][choice[b]]
				}
				interleavings(seqs, func(order []tallyCall) {
					maxParent := N + 1
					for failAt := 0; failAt <= maxParent; failAt++ {
						for _, fatal := range []bool{false, true} {
							if failAt == 0 && fatal {
								continue
							}
							tallyRun(ctx, rep, M, N, recs, positions, posIdx, v, order, failAt, fatal)
						}
					}
				})
				// next choice
				k := 0
				for k < M {
					choice[k]++
					if choice[k] < len(perBranch[k]) {
						break
					}
					choice[k] = 0
					k++
				}
				if k == M {
					break
				}
			}
			rep.State(fmt.Sprintf("M%d N%d votes %b", M, N, votes))
		}
	}
	rep.Bound("shapes (branches x positions)", fmt.Sprint(shapes))
}

func verifPropOr(def string) string {
	if p := os.Getenv("VERIF_PROPERTY"); p != "" {
		return p
	}
	return def
}

func tallyRun(ctx context.Context, rep *verifkit.Report, M, N int, recs []opencdc.Record, positions []opencdc.Position, posIdx map[string]int, v [][]bool, order []tallyCall, failAt int, fatal bool) {
	injected := errors.New("verif: parent refused")
	var failErr error = injected
	if fatal {
		failErr = cerrors.FatalError(injected)
	}
	parent := &parentLog{failAt: failAt, failErr: failErr, posIdx: posIdx}
	m, err := newMultiAckNacker(parent, M, positions)
	if err != nil {
		rep.AddViolation(verifkit.Violation{Key: verifPropOr("C04") + "/fanout-tally/setup", Text: err.Error()})
		return
	}
	m.processorTaskIDs = map[string]bool{"proc-task-b0": true} // branch 0's rejections come from a processor inside the branch
	taskOf := func(b int) string {
		if b == 0 {
			return "proc-task-b0"
		}
		return fmt.Sprintf("dest-b%d", b)
	}
	rep.Eval()
	rep.Trace()
	rep.Transitions(int64(len(order)))
	// reference state
	acks := make([]int, N)
	decided := make([]string, N) // "" / "ack" / "nack:<err>:<task>"
	failedSeen := false
	desc := func() string {
		var sb strings.Builder
		for _, c := range order {
			k := "ack"
			if c.nack {
				k = "nack"
			}
			fmt.Fprintf(&sb, "b%d.%s[%d,%d) ", c.branch, k, c.from, c.to)
		}
		return fmt.Sprintf("M=%d N=%d order: %s failAt=%d fatal=%v", M, N, sb.String(), failAt, fatal)
	}
	bad := func(key, text string) {
		rep.AddViolation(verifkit.Violation{Key: verifPropOr("C04") + "/fanout-tally/" + key, Text: text + " [" + desc() + "] parent log: " + strings.Join(parent.flat, " "),
			Replay: map[string]any{"branches": M, "positions": N, "order": desc()}})
	}
	for step, c := range order {
		var callErr error
		if c.nack {
			b := NewBatch([]opencdc.Record{recs[c.from]})
			b.Nack(0, fmt.Errorf("rejected-by-b%d", c.branch))
			callErr = m.Nack(ctx, b, taskOf(c.branch))
			if decided[c.from] == "" {
				decided[c.from] = fmt.Sprintf("nack:rejected-by-b%d:%s", c.branch, taskOf(c.branch))
			}
		} else {
			callErr = m.Ack(ctx, NewBatch(append([]opencdc.Record{}, recs[c.from:c.to]...)))
			for i := c.from; i < c.to; i++ {
				acks[i]++
				if acks[i] == M && decided[i] == "" {
					decided[i] = "ack"
				}
			}
		}
		// expected: the maximal decided prefix
		var want []string
		for i := 0; i < N && decided[i] != ""; i++ {
			if decided[i] == "ack" {
				want = append(want, fmt.Sprintf("ack:%d", i))
			} else {
				want = append(want, fmt.Sprintf("nack:%d:%s", i, strings.TrimPrefix(decided[i], "nack:")))
			}
		}
		got := parent.flat
		// safety: what the parent accepted is a prefix of the decided prefix, element-wise
		if len(got) > len(want) {
			bad("released-undecided-or-twice", fmt.Sprintf("after vote #%d the parent has accepted %d positions but only %d are decided", step+1, len(got), len(want)))
			return
		}
		for i := range got {
			if got[i] != want[i] {
				bad("wrong-decision-or-order", fmt.Sprintf("after vote #%d the parent's accepted call #%d is %q, the reference says %q", step+1, i+1, got[i], want[i]))
				return
			}
		}
		if callErr != nil {
			failedSeen = true
			if !errors.Is(callErr, injected) {
				bad("unexpected-error", fmt.Sprintf("vote #%d returned %v although the only failure injected is the parent's", step+1, callErr))
				return
			}
			if !fatal && len(got) < len(want) && strings.HasPrefix(want[len(got)], "nack:") && strings.HasSuffix(want[len(got)], ":proc-task-b0") && !cerrors.IsFatalError(callErr) {
				bad("processor-nack-refusal-not-fatal", fmt.Sprintf("vote #%d: the parent refused the nack of a record rejected by a processor task, the error handed back is not fatal: %v", step+1, callErr))
				return
			}
			if fatal && !cerrors.IsFatalError(callErr) {
				bad("fatal-mark-lost", fmt.Sprintf("vote #%d: the parent failed fatally, the error handed back to the voter is not fatal: %v", step+1, callErr))
				return
			}
		} else if !failedSeen && parent.calls < failAt || failAt == 0 {
			// liveness without a failure so far: everything decided has been released by the time the vote returns
			if len(got) != len(want) {
				bad("decided-position-not-released", fmt.Sprintf("after vote #%d %d positions are decided but the parent has only been given %d", step+1, len(want), len(got)))
				return
			}
		}
	}
	rep.Outcome(fmt.Sprintf("M%dN%d released=%d failed=%v", M, N, len(parent.flat), failedSeen))
}
