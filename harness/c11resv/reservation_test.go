//go:build verif

package processor

import (
	"context"
	"errors"
	"fmt"
	"testing"

	"github.com/conduitio/conduit-commons/config"
	"github.com/conduitio/conduit-commons/database/inmemory"
	sdk "github.com/conduitio/conduit-processor-sdk"
	"github.com/conduitio/conduit/pkg/foundation/log"
	"github.com/conduitio/conduit/pkg/plugin/processor/egress"
	"github.com/conduitio/conduit/pkg/verifkit"
)

// C11, clause "once a run has ended - or a start has failed - its connectors and processors are released so that the
// pipeline can be started again": the reservation a pipeline start takes on each of its processors
// (processor.Service.MakeRunnableProcessor marks the instance running). Explicit-state search over the real service:
// a state is the history of operations on ONE processor instance that reaches it; the alphabet is
//   build   - MakeRunnableProcessor (what a pipeline start does per processor), in every way it can fail: the plugin cannot
//             be dispensed, the host-reserved egress settings do not parse, the condition is not a template
//   end     - the run's processor is torn down (the run ended)
//   set-*   - the operator changes the stored configuration between runs (valid / malformed egress / bad plugin / ...)
//   delete  - the operator deletes the processor
// Oracle on every transition: a build that FAILED, and a run that ENDED, leave the processor released: the next
// configuration change is accepted (not refused as "running") and the next well-formed build succeeds; while a built
// runnable is alive a second build is refused. Depth 5 (thorough 6), every sequence.

type resvRegistry struct{ failPlugin string }

func (r resvRegistry) NewProcessor(_ context.Context, plugin string, _ string, _ egress.Policy) (sdk.Processor, error) {
	if plugin == r.failPlugin {
		return nil, errors.New("verif: plugin cannot be dispensed")
	}
	return resvProc{}, nil
}

type resvProc struct{ sdk.UnimplementedProcessor }

func (resvProc) Specification() (sdk.Specification, error) {
	return sdk.Specification{Name: "verif"}, nil
}
func (resvProc) Configure(context.Context, config.Config) error { return nil }
func (resvProc) Open(context.Context) error                     { return nil }
func (resvProc) Teardown(context.Context) error                 { return nil }

type resvConfig struct {
	plugin   string
	settings map[string]string
}

var resvConfigs = map[string]resvConfig{
	"set-good":       {"builtin:verif", map[string]string{"k": "v"}},
	"set-egress-ok":  {"builtin:verif", map[string]string{egress.ConfigKeyAllow: "https://api.example.com:443"}},
	"set-egress-bad": {"builtin:verif", map[string]string{egress.ConfigKeyAllow: "*.evil.example", egress.ConfigKeyTimeout: "-3s"}},
	"set-badplugin":  {"builtin:missing", map[string]string{"k": "v"}},
}

func TestVerifC11Reservation(t *testing.T) {
	rep := verifkit.NewReport("C11", "processor-reservation")
	defer func() {
		if err := rep.Write(); err != nil {
			t.Fatal(err)
		}
		if rep.Violations() > 0 {
			t.Fail()
		}
	}()
	ops := []string{"build", "end", "set-good", "set-egress-ok", "set-egress-bad", "set-badplugin"}
	depth := 5
	if verifkit.Thorough() {
		depth = 6
	}
	shard, nsh := verifkit.Shard()
	ctx := context.Background()
	n := 0
	var walk func(hist []string)
	run := func(hist []string) {
		// replay the history on fresh real services; the oracle is evaluated on every step
		for _, cond := range []string{"", "{{ broken"} {
			svc := NewService(log.Nop(), &inmemory.DB{}, resvRegistry{failPlugin: "builtin:missing"})
			inst, err := svc.Create(ctx, "p", "builtin:verif", Parent{ID: "pl", Type: ParentTypePipeline}, Config{Settings: map[string]string{"k": "v"}, Workers: 1}, ProvisionTypeAPI, cond)
			if err != nil {
				if cond != "" {
					continue // the service refuses the malformed condition at creation: nothing to explore
				}
				t.Fatalf("create: %v", err)
			}
			var live *RunnableProcessor // the runnable of the current run, nil when no run is live
			wellFormed := true          // the stored configuration can be built
			if cond != "" {
				wellFormed = false
			}
			bad := func(key, text string) {
				rep.AddViolation(verifkit.Violation{Key: "C11/" + key, Text: fmt.Sprintf("%s [history %v, condition %q]", text, hist, cond), Replay: map[string]any{"history": hist, "condition": cond}})
			}
			for step, op := range hist {
				rep.Transitions(1)
				switch op {
				case "build":
					rp, err := svc.MakeRunnableProcessor(ctx, inst)
					switch {
					case live != nil && err == nil:
						bad("two-runs-hold-one-processor", fmt.Sprintf("step %d: a second runnable was built while the first run's processor is alive", step))
						return
					case live == nil && wellFormed && err != nil:
						bad("start-refused-after-run-ended/processor-reservation-leaked", fmt.Sprintf("step %d: no run is live and the stored configuration is well-formed, yet the processor cannot be built: %v", step, err))
						return
					case live == nil && !wellFormed && err == nil:
						rep.Outcome("malformed configuration built")
						live = rp
					case err == nil:
						live = rp
					}
				case "end":
					if live != nil {
						_ = live.Teardown(ctx)
						live = nil
					}
				default:
					c := resvConfigs[op]
					_, err := svc.Update(ctx, "p", c.plugin, Config{Settings: c.settings, Workers: 1})
					switch {
					case live == nil && err != nil && errors.Is(err, ErrProcessorRunning):
						bad("start-refused-after-run-ended/processor-reservation-leaked", fmt.Sprintf("step %d: no run is live, yet the configuration change is refused because the processor is marked running: %v", step, err))
						return
					case live != nil && err == nil:
						bad("configuration-of-a-running-processor-changed", fmt.Sprintf("step %d: the stored configuration of a processor that is live in a run was changed through the ordinary update", step))
						return
					case err == nil:
						wellFormed = op == "set-good" || op == "set-egress-ok"
						if cond != "" {
							wellFormed = false
						}
					}
				}
			}
			if live != nil {
				_ = live.Teardown(ctx)
			}
			rep.Eval()
			rep.Trace()
		}
	}
	walk = func(hist []string) {
		if len(hist) > 0 {
			n++
			if n%nsh == shard {
				rep.State(fmt.Sprint(hist))
				run(hist)
			}
		}
		if len(hist) == depth {
			return
		}
		for _, op := range ops {
			walk(append(append([]string{}, hist...), op))
		}
	}
	walk(nil)
	rep.Bound("depth", depth)
	rep.Bound("alphabet", fmt.Sprint(ops))
}
