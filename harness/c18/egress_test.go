//go:build verif

// C18: processor egress never reaches private / metadata addresses unless carved out. Literal exhaustion of the
// address space through the real Refuse, bounded-exhaustive enumeration of resolver answer sets through the real
// dialContext/dialControl, and of policy/ceiling pairs through the real ResolvePolicy.
package egress

import (
	"context"
	"encoding/binary"
	"errors"
	"fmt"
	"net"
	"sort"
	"strings"
	"syscall"
	"testing"
	"time"

	"github.com/conduitio/conduit/pkg/foundation/log"
	"github.com/conduitio/conduit/pkg/verifkit"
)

// floorV4 is the documented refused floor for IPv4, written independently of the implementation (integer ranges).
func floorV4(v uint32) (bool, string) {
	switch {
	case v>>24 == 0:
		return true, "this-network 0/8"
	case v>>24 == 127:
		return true, "loopback 127/8"
	case v>>24 == 10:
		return true, "rfc1918 10/8"
	case v >= 0xAC100000 && v <= 0xAC1FFFFF:
		return true, "rfc1918 172.16/12"
	case v>>16 == 0xC0A8:
		return true, "rfc1918 192.168/16"
	case v>>16 == 0xA9FE:
		return true, "link-local 169.254/16 (metadata)"
	case v >= 0x64400000 && v <= 0x647FFFFF:
		return true, "cgnat 100.64/10"
	case v>>28 >= 0xE:
		return true, "multicast/reserved 224/3"
	}
	return false, ""
}

type carrier struct {
	name string
	mk   func(v uint32) net.IP
}

func b4(v uint32) [4]byte { var b [4]byte; binary.BigEndian.PutUint32(b[:], v); return b }

var carriers = []carrier{
	{"ipv4-4byte", func(v uint32) net.IP { b := b4(v); return net.IP{b[0], b[1], b[2], b[3]} }},
	{"ipv4-mapped-16byte", func(v uint32) net.IP { b := b4(v); return net.IPv4(b[0], b[1], b[2], b[3]) }},
	{"nat64 64:ff9b::/96", func(v uint32) net.IP { b := b4(v); ip := net.ParseIP("64:ff9b::"); copy(ip[12:], b[:]); return ip }},
	{"v4-translated ::ffff:0:0:0/96", func(v uint32) net.IP { b := b4(v); ip := net.ParseIP("::ffff:0:0:0"); copy(ip[12:], b[:]); return ip }},
	{"6to4 2002::/16", func(v uint32) net.IP { b := b4(v); ip := net.ParseIP("2002::"); copy(ip[2:6], b[:]); return ip }},
	{"teredo client (obfuscated)", func(v uint32) net.IP {
		b := b4(^v)
		ip := net.ParseIP("2001:0:5ef5:79fd::")
		copy(ip[12:], b[:])
		return ip
	}},
	{"teredo server", func(v uint32) net.IP { b := b4(v); ip := net.ParseIP("2001::"); copy(ip[4:8], b[:]); return ip }},
	{"v4-compatible ::a.b.c.d", func(v uint32) net.IP { b := b4(v); ip := make(net.IP, 16); copy(ip[12:], b[:]); return ip }},
	// the local-use NAT64 prefix 64:ff9b:1::/48 (RFC 8215; IANA special-purpose registry, not globally reachable): an
	// operator's NAT64 uses it with any RFC 6052 prefix length - here the /96 form (IPv4 in the last 32 bits) and the /48
	// form (IPv4 in bits 48-63 and 72-87, the "u" octet between them zero)
	{"nat64 local-use 64:ff9b:1::/48 (/96 form)", func(v uint32) net.IP { b := b4(v); ip := net.ParseIP("64:ff9b:1::"); copy(ip[12:], b[:]); return ip }},
	{"nat64 local-use 64:ff9b:1::/48 (/48 form)", func(v uint32) net.IP {
		b := b4(v)
		ip := net.ParseIP("64:ff9b:1::")
		ip[6], ip[7], ip[9], ip[10] = b[0], b[1], b[2], b[3]
		return ip
	}},
}

func report(t *testing.T, part string) (*verifkit.Report, func()) {
	rep := verifkit.NewReport("C18", part)
	return rep, func() {
		if err := rep.Write(); err != nil {
			t.Fatal(err)
		}
		if rep.Violations() > 0 {
			t.Fail()
		}
	}
}

// TestVerifC18IPv4 walks the IPv4 space (thorough: all 2^32 addresses; quick: .0 .1 .254 .255 of every /24 plus +-2
// around every boundary of the floor table) in every carrier form.
func TestVerifC18IPv4(t *testing.T) {
	rep, done := report(t, "ipv4")
	defer done()
	shard, n := verifkit.Shard()
	thorough := verifkit.Thorough()
	var overRefusedPublic int64
	classes := map[string]int64{}
	check := func(v uint32) {
		want, why := floorV4(v)
		for ci, c := range carriers {
			ip := c.mk(v)
			got, reason := Refuse(ip)
			rep.Eval()
			if want && !got {
				rep.AddViolation(verifkit.Violation{Key: "C18/refused-floor-not-refused/" + c.name,
					Text:   fmt.Sprintf("Refuse(%s) = false (carrier %s of %s), but the embedded IPv4 is in the refused floor: %s", ip, c.name, net.IP(c.mk(v)), why),
					Replay: map[string]any{"ipv4": v, "carrier": c.name, "ip": ip.String()}})
			}
			if !want && got && ci < 2 {
				overRefusedPublic++
			}
			if v&0x00ffffff == 0x000001 || ci == 0 && v&0xffff == 0 {
				classes[fmt.Sprintf("%s refused=%v reason=%s", c.name, got, reason)]++
			}
		}
	}
	var count int64
	if thorough {
		// shard by /8 blocks interleaved
		for hi := uint32(0); hi < 1<<16; hi++ {
			if int(hi)%n != shard {
				continue
			}
			base := hi << 16
			for lo := uint32(0); lo < 1<<16; lo++ {
				check(base | lo)
				count++
			}
		}
		rep.Bound("ipv4_addresses", "all 2^32 (this shard: every address of the /16 blocks assigned to it)")
	} else {
		for p := uint32(0); p < 1<<24; p++ {
			if int(p)%n != shard {
				continue
			}
			for _, lo := range []uint32{0, 1, 254, 255} {
				check(p<<8 | lo)
				count++
			}
		}
		if shard == 0 {
			for _, b := range []uint32{0x01000000, 0x0A000000, 0x0B000000, 0x64400000, 0x64800000, 0x7F000000, 0x80000000, 0xA9FE0000, 0xA9FF0000,
				0xAC100000, 0xAC200000, 0xC0A80000, 0xC0A90000, 0xE0000000, 0xFFFFFFFF, 0xA9FEA9FE} {
				for d := int64(-2); d <= 2; d++ {
					check(uint32(int64(b) + d))
					count++
				}
			}
		}
		rep.Bound("ipv4_addresses", "first two and last two addresses of every /24 + the +-2 neighbourhood of every floor boundary")
	}
	rep.Transitions(count * int64(len(carriers)))
	rep.EvalN(0)
	for k, c := range classes {
		rep.Outcome(k)
		_ = c
	}
	rep.State(fmt.Sprintf("shard %d/%d addresses %d", shard, n, count))
	for i := 0; i < 8; i++ {
		rep.State(fmt.Sprintf("carrier %d", i))
	}
	rep.Extra("public_ipv4_refused_anyway(info)", overRefusedPublic)
	rep.Extra("addresses_walked", count)
	rep.Extra("carrier_forms", len(carriers))
	rep.Sample(map[string]any{"address": "169.254.169.254", "forms": func() []string {
		var s []string
		for _, c := range carriers {
			ip := c.mk(0xA9FEA9FE)
			r, why := Refuse(ip)
			s = append(s, fmt.Sprintf("%s=%s refused=%v(%s)", c.name, ip, r, why))
		}
		return s
	}()})
	for i := int64(0); i < count && i < 4; i++ {
		rep.Trace()
	}
}

// floorV6 is the documented IPv6 refused floor.
func floorV6(ip net.IP) (bool, string) {
	switch {
	case ip.Equal(net.IPv6loopback):
		return true, "::1"
	case ip.Equal(net.IPv6unspecified):
		return true, "::"
	case ip[0] == 0xfe && ip[1]&0xc0 == 0x80:
		return true, "link-local fe80::/10"
	case ip[0] == 0xfe && ip[1]&0xc0 == 0xc0:
		return true, "site-local fec0::/10"
	case ip[0]&0xfe == 0xfc:
		return true, "ULA fc00::/7"
	case ip[0] == 0xff:
		return true, "multicast ff00::/8"
	case ip[0] == 0x00 && ip[1] == 0x64 && ip[2] == 0xff && ip[3] == 0x9b && ip[4] == 0x00 && ip[5] == 0x01:
		return true, "local-use NAT64 64:ff9b:1::/48 (RFC 8215): an IPv4-embedding translation prefix, not public unicast"
	}
	return false, ""
}

// TestVerifC18IPv6 walks all 65536 leading hextets x a set of tails.
func TestVerifC18IPv6(t *testing.T) {
	rep, done := report(t, "ipv6")
	defer done()
	tails := [][14]byte{{}, {13: 1}, {0: 0xff, 13: 0xff}, {5: 1, 9: 0x7f, 10: 0, 11: 0, 12: 0, 13: 1}, {10: 10, 11: 0, 12: 0, 13: 5}, {8: 0xa9, 9: 0xfe, 10: 0xa9, 11: 0xfe},
		{0: 0xff, 1: 0x9b, 2: 0x00, 3: 0x01, 10: 0xa9, 11: 0xfe, 12: 0xa9, 13: 0xfe}, {0: 0xff, 1: 0x9b, 2: 0x00, 3: 0x01, 4: 0xa9, 5: 0xfe, 7: 0xa9, 8: 0xfe}}
	outcomes := map[string]bool{}
	for h := 0; h < 1<<16; h++ {
		for ti, tail := range tails {
			ip := make(net.IP, 16)
			ip[0], ip[1] = byte(h>>8), byte(h)
			copy(ip[2:], tail[:])
			want, why := floorV6(ip)
			got, reason := Refuse(ip)
			rep.Eval()
			if want && !got {
				rep.AddViolation(verifkit.Violation{Key: "C18/refused-floor-v6-not-refused", Text: fmt.Sprintf("Refuse(%s) = false but the address is in the refused floor: %s", ip, why),
					Replay: map[string]any{"ip": ip.String()}})
			}
			outcomes[fmt.Sprintf("refused=%v reason=%s", got, reason)] = true
			if h%4099 == 7 && ti == 1 {
				rep.Sample(map[string]any{"ip": ip.String(), "refused": got, "reason": string(reason), "floor": why})
			}
		}
		rep.State(fmt.Sprintf("hextet %04x", h))
	}
	// the special single addresses
	for _, s := range []string{"::", "::1", "::2", "fe80::1", "febf::1", "fec0::1", "feff::1", "fc00::1", "fdff::1", "ff02::1", "::ffff:127.0.0.1", "::ffff:8.8.8.8", "::127.0.0.1", "64:ff9b::7f00:1", "2002:7f00:1::", "64:ff9b:1::a9fe:a9fe", "64:ff9b:1:a9fe:a9:fe00::"} {
		ip := net.ParseIP(s)
		got, reason := Refuse(ip)
		rep.Eval()
		want, why := floorV6(ip.To16())
		if v4 := ip.To4(); v4 != nil {
			want, why = floorV4(binary.BigEndian.Uint32(v4))
		}
		if want && !got {
			rep.AddViolation(verifkit.Violation{Key: "C18/refused-floor-v6-not-refused", Text: fmt.Sprintf("Refuse(%s) = false but: %s", s, why), Replay: map[string]any{"ip": s}})
		}
		outcomes[fmt.Sprintf("refused=%v reason=%s", got, reason)] = true
	}
	for o := range outcomes {
		rep.Outcome(o)
	}
	rep.Transitions(int64(len(tails)) << 16)
	rep.Trace()
	rep.Bound("ipv6", "all 65536 leading hextets x 8 tails + named special addresses")
}

type fakeResolver struct{ ips []net.IP }

func (f fakeResolver) LookupIP(context.Context, string) ([]net.IP, error) { return f.ips, nil }

type hostResolver map[string][]net.IP

func (h hostResolver) LookupIP(_ context.Context, host string) ([]net.IP, error) { return h[host], nil }

// TestVerifC18DialSequences: the guard must decide every dial on its own: all ordered PAIRS of dial requests issued on ONE
// Service (the object that lives as long as a processor) - nothing an earlier admitted dial leaves behind may admit a later one.
func TestVerifC18DialSequences(t *testing.T) {
	rep, done := report(t, "dialseq")
	defer done()
	alphabet := []string{"93.184.216.34", "127.0.0.1", "10.0.0.5", "169.254.169.254", "2606:4700::1111", "::1", "::ffff:10.0.0.5"}
	public := map[string]bool{"93.184.216.34": true, "2606:4700::1111": true}
	allowlists := map[string][]AllowEntry{
		"carve 10.0.0.5:8080": {{Scheme: "http", Host: "10.0.0.5", Port: "8080", IP: net.ParseIP("10.0.0.5")}, {Scheme: "https", Host: "h1.example", Port: "443"}},
		"carve 127.0.0.1:80":  {{Scheme: "http", Host: "127.0.0.1", Port: "80", IP: net.ParseIP("127.0.0.1")}},
		"carve ::1:8080":      {{Scheme: "http", Host: "::1", Port: "8080", IP: net.ParseIP("::1")}},
		// two carve-outs with different addresses AND different ports: only the two listed pairs are admitted, never the cross pairs
		"carve 127.0.0.1:80 + 10.0.0.5:8080": {{Scheme: "http", Host: "127.0.0.1", Port: "80", IP: net.ParseIP("127.0.0.1")}, {Scheme: "http", Host: "10.0.0.5", Port: "8080", IP: net.ParseIP("10.0.0.5")}},
		"none":                               nil,
	}
	type request struct {
		answers []string
		port    string
		literal bool
	}
	var reqs []request
	for _, port := range []string{"80", "8080", "443"} {
		for _, a := range alphabet {
			reqs = append(reqs, request{[]string{a}, port, true}, request{[]string{a}, port, false})
			if verifkit.Thorough() {
				for _, b := range alphabet {
					reqs = append(reqs, request{[]string{a, b}, port, false})
				}
			}
		}
	}
	var alNames []string
	for k := range allowlists {
		alNames = append(alNames, k)
	}
	sort.Strings(alNames)
	shard, n := verifkit.Shard()
	rep.Bound("requests", len(reqs))
	rep.Bound("ordered_request_pairs", len(reqs)*len(reqs))
	idx := 0
	for _, aln := range alNames {
		for i, r1 := range reqs {
			for j, r2 := range reqs {
				idx++
				if idx%n != shard {
					continue
				}
				pol := Policy{Enabled: true, Allowlist: allowlists[aln]}
				res := hostResolver{}
				svc := New(pol, log.Nop(), WithResolver(res))
				var attempts []string
				base := &net.Dialer{Timeout: time.Second, Control: func(network, address string, c syscall.RawConn) error {
					if err := svc.dialControl(network, address, c); err != nil {
						return err
					}
					attempts = append(attempts, address)
					return errStop
				}}
				dial := svc.dialContext(base)
				for step, r := range []request{r1, r2} {
					host := fmt.Sprintf("h%d.example", step)
					var ips []net.IP
					for _, a := range r.answers {
						ips = append(ips, net.ParseIP(a))
					}
					res[host] = ips
					if r.literal {
						host = r.answers[0]
					}
					attempts = nil
					_, _ = dial(context.Background(), "tcp", net.JoinHostPort(host, r.port))
					for _, a := range attempts {
						h, p, _ := net.SplitHostPort(a)
						ip := net.ParseIP(h)
						ok := false
						for pub := range public {
							if net.ParseIP(pub).Equal(ip) {
								ok = true
							}
						}
						for _, e := range pol.Allowlist {
							if e.IP != nil && e.IP.Equal(ip) && e.Port == p {
								ok = true
							}
						}
						if !ok {
							rep.AddViolation(verifkit.Violation{Key: "C18/connect-attempt-to-refused-address/after-earlier-dial",
								Text:   fmt.Sprintf("request #%d on one service: a connection attempt to %s was let through (allowlist %q; request 1 = %+v, request 2 = %+v): it is neither public nor an exact (IP,port) carve-out", step+1, a, aln, r1, r2),
								Replay: map[string]any{"allowlist": aln, "request1": i, "request2": j}})
						}
					}
				}
				rep.Eval()
				rep.Trace()
				rep.Transitions(2)
				if idx%50021 == 7 {
					rep.Sample(map[string]any{"allowlist": aln, "request1": fmt.Sprintf("%+v", r1), "request2": fmt.Sprintf("%+v", r2)})
				}
			}
			rep.State(fmt.Sprintf("%s|%d", aln, i))
		}
	}
	rep.Outcome("pairs")
	rep.Outcome("decided-independently")
}

var errStop = errors.New("verif: dial stopped after the Control gate (no connect)")

// TestVerifC18Dial drives the real dialContext + dialControl with every resolver answer sequence of length <= 3 over an
// address-class alphabet x allowlist shapes x ports. A dial "attempt" is observed at the dialer's Control hook, i.e.
// after the guard decided and before connect(2); the harness stops the dial there.
func TestVerifC18Dial(t *testing.T) {
	rep, done := report(t, "dial")
	defer done()
	alphabet := []string{"93.184.216.34", "127.0.0.1", "10.0.0.5", "169.254.169.254", "100.64.0.1", "2606:4700::1111", "fd00::1", "::ffff:10.0.0.5", "64:ff9b::a00:5", "224.0.0.1", "0.0.0.0", "::1", "192.168.1.1", "2002:a00:5::1"}
	public := map[string]bool{"93.184.216.34": true, "2606:4700::1111": true}
	allowlists := map[string][]AllowEntry{
		"none":                nil,
		"carve 10.0.0.5:8080": {{Scheme: "http", Host: "10.0.0.5", Port: "8080", IP: net.ParseIP("10.0.0.5")}},
		"carve 127.0.0.1:80":  {{Scheme: "http", Host: "127.0.0.1", Port: "80", IP: net.ParseIP("127.0.0.1")}},
		"hostname only":       {{Scheme: "https", Host: "internal.example", Port: "443"}},
		"carve ::1:8080":      {{Scheme: "http", Host: "::1", Port: "8080", IP: net.ParseIP("::1")}},
		// two carve-outs with different addresses AND different ports (plus a hostname entry on each port so that stage 1
		// lets a name through whose answers then include the other carve-out's address)
		"carve 127.0.0.1:80 + 10.0.0.5:8080": {{Scheme: "http", Host: "127.0.0.1", Port: "80", IP: net.ParseIP("127.0.0.1")}, {Scheme: "http", Host: "10.0.0.5", Port: "8080", IP: net.ParseIP("10.0.0.5")}},
	}
	var alNames []string
	for k := range allowlists {
		alNames = append(alNames, k)
	}
	sort.Strings(alNames)
	var seqs [][]string
	var gen func(cur []string, depth int)
	gen = func(cur []string, depth int) {
		if len(cur) > 0 {
			seqs = append(seqs, append([]string{}, cur...))
		}
		if depth == 0 {
			return
		}
		for _, a := range alphabet {
			gen(append(cur, a), depth-1)
		}
	}
	depth := 2
	if verifkit.Thorough() {
		depth = 3
	}
	gen(nil, depth)
	shard, n := verifkit.Shard()
	rep.Bound("resolver_answer_sequences", len(seqs))
	for si, seq := range seqs {
		if si%n != shard {
			continue
		}
		for _, aln := range alNames {
			for _, port := range []string{"80", "8080"} {
				for _, literal := range []bool{false, true} {
					if literal && len(seq) != 1 {
						continue
					}
					pol := Policy{Enabled: true, Allowlist: allowlists[aln]}
					var ips []net.IP
					for _, s := range seq {
						ips = append(ips, net.ParseIP(s))
					}
					svc := New(pol, log.Nop(), WithResolver(fakeResolver{ips}))
					var attempts []string
					base := &net.Dialer{Timeout: time.Second, Control: func(network, address string, c syscall.RawConn) error {
						if err := svc.dialControl(network, address, c); err != nil {
							return err
						}
						attempts = append(attempts, address)
						return errStop
					}}
					host := "some.host.example"
					if literal {
						host = seq[0]
					}
					_, err := svc.dialContext(base)(context.Background(), "tcp", net.JoinHostPort(host, port))
					rep.Eval()
					rep.Trace()
					rep.Transitions(int64(len(seq)))
					key := fmt.Sprintf("%v|%s|%s|lit=%v", seq, aln, port, literal)
					rep.State(key)
					if len(seq) > 1 {
						rep.Nontrivial(key)
					}
					if err == nil {
						rep.AddViolation(verifkit.Violation{Key: "C18/dial-succeeded-unexpectedly", Text: "dial returned a connection in the harness: " + key, Replay: map[string]any{"case": key}})
					}
					for _, a := range attempts {
						h, p, _ := net.SplitHostPort(a)
						ip := net.ParseIP(h)
						carved := false
						for _, e := range pol.Allowlist {
							if e.IP != nil && e.IP.Equal(ip) && e.Port == p {
								carved = true
							}
						}
						isPublic := false
						for pub := range public {
							if net.ParseIP(pub).Equal(ip) {
								isPublic = true
							}
						}
						if !isPublic && !carved {
							rep.AddViolation(verifkit.Violation{Key: "C18/connect-attempt-to-refused-address",
								Text:   fmt.Sprintf("a connection attempt to %s was let through (resolver answers %v, allowlist %q, port %s): it is neither public nor an exact (IP,port) carve-out", a, seq, aln, port),
								Replay: map[string]any{"answers": seq, "allowlist": aln, "port": port, "literal": literal}})
						}
						if p != port {
							rep.AddViolation(verifkit.Violation{Key: "C18/connect-attempt-other-port", Text: fmt.Sprintf("attempt to %s although port %s was requested", a, port), Replay: map[string]any{"case": key}})
						}
					}
					// every public / carved candidate before the first attempt must have been attempted (no silent skip is
					// not part of the property; only record the outcome class)
					rep.Outcome(fmt.Sprintf("attempts=%d err=%T", len(attempts), errors.Unwrap(err)))
					if si%997 == 3 && aln == "none" && port == "80" {
						rep.Sample(map[string]any{"answers": seq, "allowlist": aln, "port": port, "attempts": attempts, "err": fmt.Sprint(err)})
					}
				}
			}
		}
	}
}

// TestVerifC18Policy enumerates (per-processor policy, ceiling) pairs over a 4-entry universe through the real ResolvePolicy.
func TestVerifC18Policy(t *testing.T) {
	rep, done := report(t, "policy")
	defer done()
	univ := []AllowEntry{
		{Scheme: "https", Host: "api.example.com", Port: "443"},
		{Scheme: "http", Host: "10.0.0.5", Port: "8080", IP: net.ParseIP("10.0.0.5")},
		{Scheme: "https", Host: "api.example.com", Port: "8443"},
		{Scheme: "http", Host: "api.example.com", Port: "443"},
	}
	subset := func(m int) []AllowEntry {
		var out []AllowEntry
		for i, e := range univ {
			if m&(1<<i) != 0 {
				out = append(out, e)
			}
		}
		return out
	}
	refs := func(m int) map[string]struct{} {
		if m == 0 {
			return nil
		}
		out := map[string]struct{}{}
		if m&1 != 0 {
			out["a"] = struct{}{}
		}
		if m&2 != 0 {
			out["b"] = struct{}{}
		}
		return out
	}
	timeouts := []time.Duration{0, 5 * time.Second, 120 * time.Second}
	sizes := []int64{0, 1024, 64 << 20}
	shard, n := verifkit.Shard()
	idx := 0
	for pe := 0; pe < 2; pe++ {
		for ce := 0; ce < 2; ce++ {
			for pa := 0; pa < 16; pa++ {
				for ca := 0; ca < 16; ca++ {
					idx++
					if idx%n != shard {
						continue
					}
					for pr := 0; pr < 4; pr++ {
						for cr := 0; cr < 4; cr++ {
							for _, pt := range timeouts {
								for _, ct := range timeouts {
									for _, ps := range sizes {
										for _, cs := range sizes {
											per := Policy{Enabled: pe == 1, Allowlist: subset(pa), SecretRefs: refs(pr), Timeout: pt, MaxResponseBytes: ps}
											ceil := Policy{Enabled: ce == 1, Allowlist: subset(ca), SecretRefs: refs(cr), Timeout: ct, MaxResponseBytes: cs}
											eff, dropped := ResolvePolicy(per, ceil)
											rep.Eval()
											bad := func(what string) {
												rep.AddViolation(verifkit.Violation{Key: "C18/effective-policy-exceeds-ceiling/" + strings.SplitN(what, ":", 2)[0],
													Text:   fmt.Sprintf("%s (per-processor %+v, ceiling %+v, effective %+v)", what, per, ceil, eff),
													Replay: map[string]any{"per_enabled": pe, "ceiling_enabled": ce, "per_allow": pa, "ceiling_allow": ca, "per_refs": pr, "ceiling_refs": cr, "per_timeout": pt.String(), "ceiling_timeout": ct.String(), "per_size": ps, "ceiling_size": cs}})
											}
											if (pe == 0 || ce == 0) && (eff.Enabled || len(eff.Allowlist) > 0 || len(eff.SecretRefs) > 0) {
												bad("enabled: effective policy is not deny-all although the processor or the ceiling has egress disabled")
											}
											if eff.Enabled {
												for _, e := range eff.Allowlist {
													inPer, inCeil := false, len(ceil.Allowlist) == 0
													for _, x := range per.Allowlist {
														if entryKey(x) == entryKey(e) {
															inPer = true
														}
													}
													for _, x := range ceil.Allowlist {
														if entryKey(x) == entryKey(e) {
															inCeil = true
														}
													}
													if !inPer || !inCeil {
														bad("hosts: effective allowlist entry " + entryKey(e) + " is not granted by both the processor and the ceiling")
													}
												}
												openCeiling := len(ceil.Allowlist) == 0 && len(ceil.SecretRefs) == 0
												for r := range eff.SecretRefs {
													_, inPer := per.SecretRefs[r]
													_, inCeil := ceil.SecretRefs[r]
													if !inPer || (!inCeil && !openCeiling) {
														bad("secrets: effective secret ref " + r + " is not granted by both the processor and the ceiling")
													}
												}
												if eff.Timeout <= 0 || (ct > 0 && eff.Timeout > ct) {
													bad("timeout: effective timeout " + eff.Timeout.String() + " exceeds the ceiling " + ct.String())
												}
												if eff.MaxResponseBytes <= 0 || (cs > 0 && eff.MaxResponseBytes > cs) {
													bad(fmt.Sprintf("size: effective max response size %d exceeds the ceiling %d", eff.MaxResponseBytes, cs))
												}
												if len(eff.Allowlist)+len(dropped) != len(per.Allowlist) {
													bad("hosts: requested entries are neither effective nor reported as dropped")
												}
											}
										}
									}
								}
							}
						}
					}
					rep.State(fmt.Sprintf("%d/%d/%d/%d", pe, ce, pa, ca))
					rep.Nontrivial(fmt.Sprintf("%d/%d/%d/%d", pe, ce, pa, ca))
					rep.Transitions(4 * 4 * 81)
					rep.Trace()
					eff, dropped := ResolvePolicy(Policy{Enabled: pe == 1, Allowlist: subset(pa)}, Policy{Enabled: ce == 1, Allowlist: subset(ca)})
					rep.Outcome(fmt.Sprintf("enabled=%v eff=%d dropped=%d", eff.Enabled, len(eff.Allowlist), len(dropped)))
					if idx%97 == 5 {
						rep.Sample(map[string]any{"per_allow_mask": pa, "ceiling_allow_mask": ca, "per_enabled": pe, "ceiling_enabled": ce, "effective": len(eff.Allowlist), "dropped": len(dropped)})
					}
				}
			}
		}
	}
}
