//go:build verif

package provisioning

import (
	"fmt"
	"strings"
	"testing"
	"time"

	"github.com/conduitio/conduit/pkg/verifkit"
)

// C16, mechanism "per-pipeline apply lock" (pipelineLocks in lock.go): ApplyPlan / ApplyPlanLive hold the pipeline's
// lock for their whole body, so two applies to the SAME pipeline never interleave and applies to DIFFERENT pipelines
// never wait for each other. The driver is the narrowest one that reaches the state: K callers on the real
// pipelineLocks, each "release := Lock(id); <inside: one environment gate>; release()". The explorer enumerates every
// order in which the callers arrive and in which the holders leave (unbounded for 3 callers, deviation-bounded for 4),
// and - the file lock.go carries statement-level scheduling points - additionally preempts one caller at every
// statement occurrence of Lock / of the release func and explores the arrival/leave orders around that preemption.
//
// Oracle on the event log of every execution:
//   - mutual exclusion: between enter(k,id) and exit(k,id) there is no enter(j,id) of another caller;
//   - independence: a caller whose id nobody holds (and nobody is queued for) enters without any other caller leaving;
//   - progress: when every holder was let go, every caller has entered, left and returned (no lost wake-up, no wedge).
type lockCaller struct{ id string }

func lockScenario(name string, callers []lockCaller) verifkit.Scenario {
	return verifkit.Scenario{
		Name:       name,
		Params:     map[string]any{"callers": fmt.Sprint(callers)},
		PointFiles: true,
		Setup: func(x *verifkit.Exec) {
			p := newPipelineLocks()
			for k, c := range callers {
				k, c := k, c
				x.AddControl(&verifkit.Control{Name: fmt.Sprintf("lock%d[%s]", k, c.id), Do: func() {
					release := p.Lock(c.id)
					x.W.Log("lock", "enter", k, c.id)
					x.W.Gate(nil, fmt.Sprintf("inside%d[%s]", k, c.id), "leave")
					x.W.Log("lock", "exit", k, c.id)
					release()
				}})
			}
		},
		Outcome: func(x *verifkit.Exec) string {
			var order []string
			for _, e := range x.W.Events() {
				if e.Comp == "lock" && e.Kind == "enter" {
					order = append(order, fmt.Sprint(e.Idx))
				}
			}
			return "enter-order=" + strings.Join(order, ",")
		},
		Check: func(x *verifkit.Exec) []verifkit.Violation {
			var vs []verifkit.Violation
			inside := map[string]int{} // id -> caller inside (+1)
			waitingSince := map[int]int{}
			called := map[int]bool{}
			entered := map[int]bool{}
			exited := map[int]bool{}
			evs := x.W.Events()
			for i, e := range evs {
				switch {
				case e.Comp == "ctl" && e.Kind == "call":
					var k int
					var id string
					if _, err := fmt.Sscanf(strings.NewReplacer("[", " ", "]", "").Replace(e.Arg), "lock%d %s", &k, &id); err == nil {
						called[k] = true
						waitingSince[k] = i
					}
				case e.Comp == "lock" && e.Kind == "enter":
					if h := inside[e.Arg]; h != 0 {
						vs = append(vs, verifkit.Violation{Key: "C16/two-applies-inside-the-same-pipeline-lock", Text: fmt.Sprintf(
							"caller %d entered the section guarded by the lock of pipeline %q (event #%d) while caller %d was still inside it: two applies to one pipeline interleave", e.Idx, e.Arg, i, h-1)})
					}
					inside[e.Arg] = e.Idx + 1
					entered[e.Idx] = true
					// independence: if no other caller with the same id was called before this one entered, nobody's exit may
					// lie between its call and its entry (it did not have to wait for a different pipeline's holder)
					alone := true
					for j, c := range callers {
						if j != e.Idx && c.id == e.Arg && called[j] {
							alone = false
						}
					}
					if alone && len(x.Armed) == 0 {
						for _, f := range evs[waitingSince[e.Idx]:i] {
							if f.Comp == "lock" && f.Kind == "exit" {
								vs = append(vs, verifkit.Violation{Key: "C16/apply-waits-for-another-pipelines-lock", Text: fmt.Sprintf(
									"caller %d (pipeline %q, nobody else holds or wants that lock) only entered after caller %d (pipeline %q) had left", e.Idx, e.Arg, f.Idx, f.Arg)})
							}
						}
					}
				case e.Comp == "lock" && e.Kind == "exit":
					if inside[e.Arg] == e.Idx+1 {
						inside[e.Arg] = 0
					}
					exited[e.Idx] = true
				}
			}
			// progress: the exploration of an execution ends when no alternative is left, i.e. every control was issued and
			// every holder was let go; then everybody must be through
			if !x.StepCapHit && !x.Diverged {
				for k, c := range x.Controls {
					if !c.Issued() {
						continue
					}
					if !entered[k] || !exited[k] || !c.ReturnedInTime() {
						vs = append(vs, verifkit.Violation{Key: "C16/apply-lock-never-granted", Text: fmt.Sprintf(
							"caller %d (%s) was issued and every holder left, yet entered=%v exited=%v returned=%v: the lock was never handed over", k, c.Name, entered[k], exited[k], c.ReturnedInTime())})
					}
				}
			}
			return vs
		},
	}
}

func TestVerifC16Lock(t *testing.T) {
	rep := verifkit.NewReport("C16", "keyed-lock")
	defer func() {
		if err := rep.Write(); err != nil {
			t.Fatal(err)
		}
		if rep.Violations() > 0 {
			t.Fail()
		}
	}()
	deadline := verifkit.Deadline(100*time.Second, 20*time.Minute)
	type sc struct {
		name    string
		callers []lockCaller
		bound   int // deviation bound of the unarmed search (99 = every order)
		pbound  int // deviation budget around each single preemption
	}
	list := []sc{
		{"same-id-x2", []lockCaller{{"p"}, {"p"}}, 99, 99},
		{"same-id-x3", []lockCaller{{"p"}, {"p"}, {"p"}}, 99, 3},
		{"two-ids-ppq", []lockCaller{{"p"}, {"p"}, {"q"}}, 99, 3},
		{"two-ids-pqp", []lockCaller{{"p"}, {"q"}, {"p"}}, 99, 3},
		{"same-id-x4", []lockCaller{{"p"}, {"p"}, {"p"}, {"p"}}, 4, 1},
	}
	if verifkit.Thorough() {
		list = []sc{
			{"same-id-x2", []lockCaller{{"p"}, {"p"}}, 99, 99},
			{"same-id-x3", []lockCaller{{"p"}, {"p"}, {"p"}}, 99, 99},
			{"two-ids-ppq", []lockCaller{{"p"}, {"p"}, {"q"}}, 99, 99},
			{"two-ids-pqp", []lockCaller{{"p"}, {"q"}, {"p"}}, 99, 99},
			{"two-ids-pqpq", []lockCaller{{"p"}, {"q"}, {"p"}, {"q"}}, 99, 3},
			{"same-id-x4", []lockCaller{{"p"}, {"p"}, {"p"}, {"p"}}, 99, 3},
			{"same-id-x5", []lockCaller{{"p"}, {"p"}, {"p"}, {"p"}, {"p"}}, 5, 2},
		}
	}
	for _, s := range list {
		pb := s.pbound
		if s.bound == 99 {
			s.bound = 2 * len(s.callers) // an execution has 2 choices per caller: no schedule deviates more often than that
		}
		if pb == 99 {
			pb = 2*len(s.callers) + 1
		}
		e := &verifkit.Explorer{T: t, Rep: rep, Scn: lockScenario(s.name, s.callers), MaxBound: s.bound, PreemptBound: &pb, Deadline: deadline, MaxSteps: 200}
		e.Explore()
	}
}
