//go:build verif

package stream

import (
	"fmt"
	"testing"

	"github.com/conduitio/conduit/pkg/verifkit"
)

// TestVerifC07WindowV1: the real v1 dlqWindow against the reference model for every window size, threshold and outcome
// sequence up to the bound.
func TestVerifC07WindowV1(t *testing.T) {
	rep := verifkit.NewReport("C07", "window-v1")
	defer func() {
		if err := rep.Write(); err != nil {
			t.Fatal(err)
		}
		if rep.Violations() > 0 {
			t.Fail()
		}
	}()
	maxN, maxL := 5, 10
	if verifkit.Thorough() {
		maxN, maxL = 6, 14
	}
	for n := 0; n <= maxN; n++ {
		for th := 0; th <= maxN; th++ {
			for l := 0; l <= maxL; l++ {
				for bits := 0; bits < 1<<l; bits++ {
					w := newDLQWindow(n, th)
					ref := verifkit.NewDLQRef(n, th)
					dec := make([]byte, 0, l)
					bad := -1
					for i := 0; i < l; i++ {
						if bits>>i&1 == 1 {
							got, want := w.Nack(), ref.Nack()
							if got != want && bad < 0 {
								bad = i
							}
							if got {
								dec = append(dec, 'n')
							} else {
								dec = append(dec, 'X')
							}
						} else {
							w.Ack()
							ref.Ack()
							dec = append(dec, 'a')
						}
					}
					rep.Eval()
					rep.Transitions(int64(l))
					rep.Trace()
					rep.State(fmt.Sprintf("%d/%d/%s", n, th, dec))
					rep.Outcome(fmt.Sprintf("frozen=%v", ref.Frozen))
					if bad >= 0 {
						rep.AddViolation(verifkit.Violation{Key: "C07/window-decision/v1",
							Text:   fmt.Sprintf("v1 dlqWindow(size=%d, threshold=%d): outcome sequence %s (in order; a = ack, r = rejection): decision for outcome %d differs from the reference (decisions %s: n tolerated, X refused)", n, th, seqStrW1(l, bits), bad, dec),
							Replay: map[string]any{"size": n, "threshold": th, "len": l, "bits": bits}})
					}
				}
			}
		}
	}
	rep.Bound("window_size_max", maxN)
	rep.Bound("threshold_max", maxN)
	rep.Bound("sequence_length_max", maxL)
}

// seqStr renders an outcome sequence in order: a = ack, r = rejection.
func seqStrW1(l, bits int) string {
	b := make([]byte, l)
	for i := range b {
		b[i] = 'a'
		if bits>>i&1 == 1 {
			b[i] = 'r'
		}
	}
	return string(b)
}
