//go:build verif

package dlqparity

import (
	"context"
	"fmt"
	"strings"
	"testing"

	"github.com/conduitio/conduit-commons/opencdc"
	"github.com/conduitio/conduit/pkg/connector"
	"github.com/conduitio/conduit/pkg/foundation/cerrors"
	"github.com/conduitio/conduit/pkg/foundation/log"
	"github.com/conduitio/conduit/pkg/foundation/metrics"
	"github.com/conduitio/conduit/pkg/foundation/metrics/noop"
	"github.com/conduitio/conduit/pkg/lifecycle-poc/funnel"
	"github.com/conduitio/conduit/pkg/lifecycle/stream"
	"github.com/conduitio/conduit/pkg/verifkit"
)

// C07 (decision parity): the REAL dead-letter handlers of both engines - stream.DLQHandlerNode (one outcome at a time)
// and funnel.DLQ (batches) - are driven through their exported entry points with every window size, threshold and
// outcome sequence up to the bound, the batch engine additionally with every partition of the sequence into batches;
// per outcome the decision (tolerated / refused, fatal or not), and the records that reached the DLQ, must agree with
// the reference model and with each other.

type vHandler struct{ written []string }

func (*vHandler) Open(context.Context) error  { return nil }
func (*vHandler) Close(context.Context) error { return nil }
func (h *vHandler) Write(_ context.Context, r opencdc.Record) error {
	h.written = append(h.written, vOriginalPosition(r))
	return nil
}

func vOriginalPosition(r opencdc.Record) string {
	after, ok := r.Payload.After.(opencdc.StructuredData)
	if !ok {
		return fmt.Sprintf("?payload(%T)", r.Payload.After)
	}
	pos, ok := after["position"].([]byte)
	if !ok {
		return fmt.Sprintf("?position(%T)", after["position"])
	}
	return string(pos)
}

type vDest struct {
	pending []opencdc.Position
	written []string
}

func (d *vDest) ID() string                     { return "verif-dlq" }
func (d *vDest) Open(context.Context) error     { return nil }
func (d *vDest) Teardown(context.Context) error { return nil }
func (d *vDest) Errors() <-chan error           { return nil }
func (d *vDest) Write(_ context.Context, recs []opencdc.Record) error {
	for _, r := range recs {
		d.pending = append(d.pending, r.Position)
		d.written = append(d.written, vOriginalPosition(r))
	}
	return nil
}
func (d *vDest) Ack(context.Context) ([]connector.DestinationAck, error) {
	acks := make([]connector.DestinationAck, len(d.pending))
	for i, p := range d.pending {
		acks[i] = connector.DestinationAck{Position: p}
	}
	d.pending = nil
	return acks, nil
}

// decision per outcome: 'a' ack, 'n' tolerated rejection, 'F' refused with a fatal error, 'E' refused with a plain error
func vRunV1(n, th int, seq []bool) (string, []string, error) {
	h := &vHandler{}
	node := &stream.DLQHandlerNode{Name: "verif-dlq", Handler: h, WindowSize: n, WindowNackThreshold: th,
		Timer: noop.Timer{}, Histogram: metrics.NewRecordBytesHistogram(noop.Histogram{})}
	node.SetLogger(log.Nop())
	node.Add(1)
	done := make(chan error, 1)
	go func() { done <- node.Run(context.Background()) }()
	var dec strings.Builder
	for i, nack := range seq {
		msg := &stream.Message{Ctx: context.Background(), Record: opencdc.Record{Position: opencdc.Position(fmt.Sprintf("p%d", i))}}
		if !nack {
			node.Ack(msg)
			dec.WriteByte('a')
			continue
		}
		err := node.Nack(msg, stream.NackMetadata{Reason: cerrors.New("boom"), NodeID: "verif"})
		switch {
		case err == nil:
			dec.WriteByte('n')
		case cerrors.IsFatalError(err):
			dec.WriteByte('F')
		default:
			dec.WriteByte('E')
		}
	}
	node.Done()
	return dec.String(), h.written, <-done
}

func vRunV2(n, th int, seq []bool, sizes []int) (string, []string, string) {
	dest := &vDest{}
	dlq := funnel.NewDLQ("verif-dlq", dest, log.Nop(), funnel.NoOpConnectorMetrics{}, n, th)
	ctx := context.Background()
	var dec strings.Builder
	contract := ""
	pos := 0
	for _, c := range sizes {
		recs := make([]opencdc.Record, c)
		for k := range recs {
			recs[k] = opencdc.Record{Position: opencdc.Position(fmt.Sprintf("p%d", pos+k))}
		}
		batch := funnel.NewBatch(recs)
		if !seq[pos] {
			dlq.Ack(ctx, batch)
			dec.WriteString(strings.Repeat("a", c))
		} else {
			errs := make([]error, c)
			for k := range errs {
				errs[k] = cerrors.New("boom")
			}
			batch.Nack(0, errs...)
			accepted, err := dlq.Nack(ctx, batch, "verif")
			if accepted < 0 || accepted > c {
				contract = fmt.Sprintf("Nack of %d records returned %d", c, accepted)
				accepted = 0
			}
			if accepted < c && err == nil {
				contract = fmt.Sprintf("Nack of %d records tolerated only %d but returned no error", c, accepted)
			}
			if accepted == c && err != nil {
				contract = fmt.Sprintf("Nack of %d records tolerated all of them but returned %v", c, err)
			}
			dec.WriteString(strings.Repeat("n", accepted))
			r := byte('E')
			if cerrors.IsFatalError(err) {
				r = 'F'
			}
			dec.WriteString(strings.Repeat(string(r), c-accepted))
		}
		pos += c
	}
	return dec.String(), dest.written, contract
}

func TestVerifC07Parity(t *testing.T) {
	rep := verifkit.NewReport("C07", "parity")
	defer func() {
		if err := rep.Write(); err != nil {
			t.Fatal(err)
		}
		if rep.Violations() > 0 {
			t.Fail()
		}
	}()
	maxN, maxL := 3, 7
	if verifkit.Thorough() {
		maxN, maxL = 5, 10
	}
	shard, nsh := verifkit.Shard()
	k := 0
	for n := 0; n <= maxN; n++ {
		for th := 0; th <= maxN; th++ {
			k++
			if k%nsh != shard {
				continue
			}
			for l := 0; l <= maxL; l++ {
				for bits := 0; bits < 1<<l; bits++ {
					seq := make([]bool, l)
					for i := range seq {
						seq[i] = bits>>i&1 == 1
					}
					// reference
					ref := verifkit.NewDLQRef(n, th)
					var want strings.Builder
					var wantDLQ []string
					for i, nack := range seq {
						switch {
						case !nack:
							ref.Ack()
							want.WriteByte('a')
						case ref.Nack():
							want.WriteByte('n')
							wantDLQ = append(wantDLQ, fmt.Sprintf("p%d", i))
						case th > 0:
							want.WriteByte('F')
						default:
							want.WriteByte('E')
						}
					}
					id := fmt.Sprintf("size=%d threshold=%d outcomes=%s (in order; a = ack, r = rejection)", n, th, seqStrPar(l, bits))
					replay := map[string]any{"size": n, "threshold": th, "len": l, "bits": bits}
					d1, w1, runErr := vRunV1(n, th, seq)
					rep.Eval()
					rep.Trace()
					rep.Transitions(int64(l))
					rep.State(fmt.Sprintf("%d/%d/%s", n, th, d1))
					rep.Outcome("v1:" + strings.Map(func(r rune) rune {
						if r == 'a' || r == 'n' {
							return -1
						}
						return r
					}, d1+"."))
					if runErr != nil {
						rep.AddViolation(verifkit.Violation{Key: "C07/dlq-handler-run-error/v1", Text: fmt.Sprintf("%s: DLQHandlerNode.Run returned %v", id, runErr), Replay: replay})
					}
					if d1 != want.String() {
						rep.AddViolation(verifkit.Violation{Key: "C07/dlq-decision/v1", Text: fmt.Sprintf("%s: v1 decisions %s, reference %s (a ack, n tolerated, F refused fatal, E refused plain)", id, d1, want.String()), Replay: replay})
					}
					if fmt.Sprint(w1) != fmt.Sprint(wantDLQ) {
						rep.AddViolation(verifkit.Violation{Key: "C07/dlq-content/v1", Text: fmt.Sprintf("%s: v1 wrote %v to the DLQ, expected exactly the tolerated rejections %v in order", id, w1, wantDLQ), Replay: replay})
					}
					verifkit.Partitions(seq, func(sizes []int) {
						d2, w2, contract := vRunV2(n, th, seq, sizes)
						rep.Eval()
						rep.Trace()
						rep.Transitions(int64(len(sizes)))
						rp := map[string]any{"size": n, "threshold": th, "len": l, "bits": bits, "batches": fmt.Sprint(sizes)}
						if contract != "" {
							rep.AddViolation(verifkit.Violation{Key: "C07/dlq-nack-contract/v2", Text: fmt.Sprintf("%s batches %v: %s", id, sizes, contract), Replay: rp})
						}
						if d2 != want.String() {
							rep.AddViolation(verifkit.Violation{Key: "C07/dlq-decision/v2", Text: fmt.Sprintf("%s batches %v: v2 decisions %s, reference %s", id, sizes, d2, want.String()), Replay: rp})
						}
						if d2 != d1 {
							rep.AddViolation(verifkit.Violation{Key: "C07/engines-decide-differently", Text: fmt.Sprintf("%s batches %v: v1 decisions %s, v2 decisions %s", id, sizes, d1, d2), Replay: rp})
						}
						if fmt.Sprint(w2) != fmt.Sprint(wantDLQ) {
							rep.AddViolation(verifkit.Violation{Key: "C07/dlq-content/v2", Text: fmt.Sprintf("%s batches %v: v2 wrote %v to the DLQ, expected exactly the tolerated rejections %v in order", id, sizes, w2, wantDLQ), Replay: rp})
						}
					})
				}
			}
		}
	}
	rep.Bound("window_size_max", maxN)
	rep.Bound("threshold_max", maxN)
	rep.Bound("sequence_length_max", maxL)
}

// seqStr renders an outcome sequence in order: a = ack, r = rejection.
func seqStrPar(l, bits int) string {
	b := make([]byte, l)
	for i := range b {
		b[i] = 'a'
		if bits>>i&1 == 1 {
			b[i] = 'r'
		}
	}
	return string(b)
}
