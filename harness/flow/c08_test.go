//go:build verif

package verifflow

import (
	"fmt"
	"os"
	"sort"
	"strings"
	"testing"
	"time"

	"github.com/conduitio/conduit/pkg/verifkit"
)

// C08: filter / split / error / short processor results keep record accounting exact. This is an INPUT enumeration on the
// real full stack: for every batch size, every vector of per-record result kinds at every stage of a processor chain,
// and every single rejected piece at a destination, the pipeline is run on its default schedule and the outcome of
// every source record is compared with a reference interpreter of the documented semantics.

type c08Case struct {
	Engine string
	N      int
	Stage1 []string // kind per record: p f e 2 s
	Stage2 []string // nil = one processor only
	Dests  int
	Reject string // "" or "<dest>:<record>[:<piece>]"
	// Loose: only the engine-independent oracles apply (the documented handling differs between the engines)
	Loose bool
	// Chunked: the destination confirms a write record by record (one ack response each)
	Chunked bool
	// NoMatch: records that do not match the condition of the first processor (nil = the processor has no condition)
	NoMatch []int
}

func (c c08Case) skipsStage1(i int) bool {
	for _, n := range c.NoMatch {
		if n == i {
			return true
		}
	}
	return false
}

func (c c08Case) String() string {
	cond := ""
	if c.Chunked {
		cond += " chunked-acks"
	}
	if c.NoMatch != nil {
		cond = fmt.Sprintf(" nomatch=%v", c.NoMatch)
	}
	return fmt.Sprintf("%s n=%d stage1=%s stage2=%s dests=%d reject=%q%s", c.Engine, c.N, strings.Join(c.Stage1, ""), strings.Join(c.Stage2, ""), c.Dests, c.Reject, cond)
}

// expected outcome of record i according to the documented semantics.
func (c c08Case) expected(i int) (outcome string, pieces []string) {
	pieces = []string{""}
	for si, st := range [][]string{c.Stage1, c.Stage2} {
		if st == nil || (si == 0 && c.skipsStage1(i)) {
			continue
		}
		switch st[i] {
		case "f":
			return "filtered", nil
		case "e":
			return "dlq", nil
		case "2":
			pieces = []string{"0/2", "1/2"}
		case "3":
			pieces = []string{"0/3", "1/3", "2/3"}
		case "m": // the middle piece of an earlier split is filtered
			var keep []string
			for _, p := range pieces {
				if !strings.HasPrefix(p, "1/") {
					keep = append(keep, p)
				}
			}
			pieces = keep
			if len(pieces) == 0 {
				return "filtered", nil
			}
		}
	}
	for _, rj := range strings.Split(c.Reject, ";") { // "<dest>:<record>[:<piece>]", several separated by ';'
		if rj == "" {
			continue
		}
		parts := strings.SplitN(rj, ":", 3) // dest, record, piece
		if parts[1] == fmt.Sprint(i) {
			pc := ""
			if len(parts) == 3 {
				pc = parts[2]
			}
			for _, p := range pieces {
				if p == pc {
					return "dlq", pieces
				}
			}
		}
	}
	return "delivered", pieces
}

func (c c08Case) params() flowParams {
	p := flowParams{Engine: c.Engine, Sources: 1, Records: c.N, Batch: c.N, Dests: c.Dests, AckMenu: onlyOK, Reject: map[string][]string{}}
	if c.Engine == "v1" {
		p.Batch = 1
	}
	p1 := procParam{ID: "p1", Kinds: c.Stage1}
	if c.NoMatch != nil {
		p1.Cond = "match"
		p.NoMatch = c.NoMatch
	}
	p.Procs = append(p.Procs, p1)
	if c.Stage2 != nil {
		p.Procs = append(p.Procs, procParam{ID: "p2", Kinds: c.Stage2})
	}
	for _, rj := range strings.Split(c.Reject, ";") {
		if rj == "" {
			continue
		}
		parts := strings.SplitN(rj, ":", 2)
		p.Reject[parts[0]] = append(p.Reject[parts[0]], "s0:"+parts[1])
	}
	p.ChunkAcks = c.Chunked
	return p
}

func kindVectors(n int, alphabet []string) [][]string {
	if n == 0 {
		return [][]string{{}}
	}
	var out [][]string
	for _, rest := range kindVectors(n-1, alphabet) {
		for _, a := range alphabet {
			out = append(out, append(append([]string{}, rest...), a))
		}
	}
	return out
}

func TestVerifC08(t *testing.T) {
	rep := verifkit.NewReport("C08", "accounting")
	defer func() {
		if err := rep.Write(); err != nil {
			t.Fatal(err)
		}
		if rep.Violations() > 0 {
			t.Fail()
		}
	}()
	shard, nsh := verifkit.Shard()
	deadline := verifkit.Deadline(170*time.Second, 40*time.Minute)
	maxN := 3
	alpha1 := []string{"p", "f", "e", "2", "s"}
	alpha2 := []string{"p", "f", "e"}
	only := os.Getenv("VERIF_ONLY")
	var cases []c08Case
	for _, eng := range []string{"v2", "v1"} {
		for n := 1; n <= maxN; n++ {
			a1 := alpha1
			if eng == "v1" {
				a1 = []string{"p", "f", "e"} // the default engine handles one record at a time and has no split / short results
			}
			for _, s1 := range kindVectors(n, a1) {
				stage2s := [][]string{nil}
				if n <= 2 || verifkit.Thorough() || eng == "v2" && n == 3 && strings.Count(strings.Join(s1, ""), "p") >= 1 {
					stage2s = append(stage2s, kindVectors(n, alpha2)...)
				}
				for _, s2 := range stage2s {
					for dests := 1; dests <= 2; dests++ {
						if dests == 2 && n == 3 && !verifkit.Thorough() {
							continue
						}
						base := c08Case{Engine: eng, N: n, Stage1: s1, Stage2: s2, Dests: dests}
						cases = append(cases, base)
						// every single rejected piece at every destination
						for d := 0; d < dests; d++ {
							for i := 0; i < n; i++ {
								out, pieces := base.expected(i)
								if out != "delivered" {
									continue
								}
								for _, pc := range pieces {
									r := base
									r.Reject = fmt.Sprintf("d%d:%d", d, i)
									if pc != "" {
										r.Reject += ":" + pc
									}
									cases = append(cases, r)
								}
							}
						}
					}
				}
			}
		}
	}
	// longer batches for the index arithmetic of filtered / dead-lettered holes: every filter/error pattern of one stage
	// next to an all-pass stage (funnel engine; the default engine handles one record at a time)
	holeN := []int{4, 5, 6}
	if verifkit.Thorough() {
		holeN = []int{4, 5, 6, 7, 8}
	}
	for _, n := range holeN {
		allPass := make([]string, n)
		for i := range allPass {
			allPass[i] = "p"
		}
		for _, hole := range []string{"f", "e"} {
			for _, v := range kindVectors(n, []string{"p", hole}) {
				j := strings.Join(v, "")
				if !strings.Contains(j, hole) || (hole == "e" && n > 6) {
					continue
				}
				cases = append(cases, c08Case{Engine: "v2", N: n, Stage1: v, Stage2: allPass, Dests: 1},
					c08Case{Engine: "v2", N: n, Stage1: allPass, Stage2: v, Dests: 1})
			}
		}
	}
	// ... and the same holes in front of a second processor that answers SHORT once at one record: the retried tail then
	// spans the hole (a record filtered / dead-lettered by the first processor lies physically inside the retried range)
	shortN := []int{4, 5}
	if verifkit.Thorough() {
		shortN = []int{4, 5, 6}
	}
	for _, n := range shortN {
		for _, hole := range []string{"f", "e"} {
			if hole == "e" && n > 4 && !verifkit.Thorough() {
				continue
			}
			for _, v := range kindVectors(n, []string{"p", hole}) {
				if !strings.Contains(strings.Join(v, ""), hole) {
					continue
				}
				for at := 0; at < n; at++ {
					if v[at] != "p" {
						continue // the second processor never sees this record
					}
					s2 := make([]string, n)
					for i := range s2 {
						s2[i] = "p"
					}
					s2[at] = "s"
					cases = append(cases, c08Case{Engine: "v2", N: n, Stage1: v, Stage2: s2, Dests: 1})
				}
			}
		}
	}
	// a processor with a condition: every subset of non-matching records x result kinds of the matching ones (short
	// output included), alone and in front of a second processor
	condN := []int{2, 3}
	if verifkit.Thorough() {
		condN = []int{2, 3, 4}
	}
	for _, n := range condN {
		allPass := make([]string, n)
		for i := range allPass {
			allPass[i] = "p"
		}
		for _, v := range kindVectors(n, []string{"p", "e", "s", "f"}) {
			for mask := 1; mask < 1<<n-1; mask++ { // at least one matching and one non-matching record
				var nm []int
				skipKinds := false
				for i := 0; i < n; i++ {
					if mask>>i&1 == 1 {
						nm = append(nm, i)
						if v[i] != "p" {
							skipKinds = true // the kind of a record the processor never sees does not matter: keep one representative
						}
					}
				}
				if skipKinds {
					continue
				}
				cases = append(cases, c08Case{Engine: "v2", N: n, Stage1: v, Dests: 1, NoMatch: nm})
				if n <= 3 {
					cases = append(cases, c08Case{Engine: "v2", N: n, Stage1: v, Stage2: allPass, Dests: 1, NoMatch: nm})
				}
			}
		}
	}
	// split records, a later processor filtering one piece, one or two rejected pieces / records, and a destination that
	// confirms in one response or record by record (funnel engine)
	for _, s1 := range [][]string{{"3", "p"}, {"p", "3"}, {"3", "3"}, {"2", "p"}, {"p", "2"}} {
		for _, s2 := range [][]string{{"m", "m"}, {"p", "p"}} {
			base := c08Case{Engine: "v2", N: 2, Stage1: s1, Stage2: s2, Dests: 1}
			var units []string // rejectable units
			for i := 0; i < 2; i++ {
				if out, pieces := base.expected(i); out == "delivered" {
					for _, pc := range pieces {
						u := fmt.Sprintf("d0:%d", i)
						if pc != "" {
							u += ":" + pc
						}
						units = append(units, u)
					}
				}
			}
			for _, chunked := range []bool{false, true} {
				for a := 0; a < len(units); a++ {
					c1 := base
					c1.Chunked, c1.Reject = chunked, units[a]
					cases = append(cases, c1)
					for b := a + 1; b < len(units); b++ {
						c2 := base
						c2.Chunked, c2.Reject = chunked, units[a]+";"+units[b]
						cases = append(cases, c2)
					}
				}
				c0 := base
				c0.Chunked = chunked
				cases = append(cases, c0)
			}
		}
	}
	// a processor result that is a MultiRecord holding a single record with a position of its own: whatever the engine does
	// with it, the source must never be acknowledged that position
	for _, eng := range []string{"v1", "v2"} {
		for _, s1 := range [][]string{{"1"}, {"1", "p"}, {"p", "1"}, {"1", "1"}} {
			cases = append(cases, c08Case{Engine: eng, N: len(s1), Stage1: s1, Dests: 1, Loose: true})
		}
	}
	rep.Bound("conditional_batches_max", condN[len(condN)-1])
	rep.Bound("hole_batches_max", holeN[len(holeN)-1])
	rep.Bound("cases_total", len(cases))
	rep.Bound("max_batch", maxN)
	done := 0
	for ci, c := range cases {
		if ci%nsh != shard {
			continue
		}
		if only != "" && !strings.Contains(c.String(), only) {
			continue
		}
		if time.Now().After(deadline) {
			rep.Cap(fmt.Sprintf("wall-clock budget reached after %d of this shard's cases", done))
			break
		}
		done++
		p := c.params()
		scn := flowScenario(p)
		e := &verifkit.Explorer{T: t, Rep: rep, Scn: scn}
		x := e.RunOnce(nil)
		rep.Eval()
		rep.Trace()
		rep.Transitions(int64(len(x.Points)))
		rep.State(c.String())
		if c.Reject != "" || c.Stage2 != nil {
			rep.Nontrivial(c.String())
		}
		var vs []verifkit.Violation
		if !c.Loose {
			vs = checkC08(c, x)
		}
		for _, v := range filterFor("C08", append(vs, checkFlow(p, x)...)) {
			v.Text += "\ncase: " + c.String() + "\nevent log:\n" + verifkit.FormatLog(x.W.Events())
			v.Replay = map[string]any{"case": c}
			rep.AddViolation(v)
		}
		if ci%997 == 5 {
			rep.Sample(map[string]any{"case": c.String(), "outcome": outcomeOf(x)})
		}
	}
}

func checkC08(c c08Case, x *verifkit.Exec) []verifkit.Violation {
	var out []verifkit.Violation
	bad := func(key, f string, a ...any) {
		out = append(out, verifkit.Violation{Key: key, Text: fmt.Sprintf(f, a...)})
	}
	if x.Panic != "" || x.StepCapHit {
		bad("C08/run-did-not-complete", "panic=%q stepcap=%v", x.Panic, x.StepCapHit)
		return out
	}
	type rec struct {
		acks     int
		dlq      int
		dlqOrig  bool
		recv     map[string]map[string]int // dest -> piece -> count
		ackedPcs map[string]map[string]bool
		paths    map[string]bool // processing paths (processor ids in order) of the copies destinations received
	}
	recs := make([]*rec, c.N)
	for i := range recs {
		recs[i] = &rec{recv: map[string]map[string]int{}, ackedPcs: map[string]map[string]bool{}, paths: map[string]bool{}}
	}
	var ackOrder []int
	degraded := false
	for _, e := range x.W.Events() {
		if e.Idx < 0 || e.Idx >= c.N {
			if e.Comp == "end" && strings.HasPrefix(e.Arg, "Degraded") {
				degraded = true
			}
			continue
		}
		r := recs[e.Idx]
		piece := ""
		if k := strings.Index(e.Arg, "piece="); k >= 0 {
			piece = strings.SplitN(e.Arg[k+6:], "|", 2)[0]
		}
		switch {
		case e.Comp == "s0" && e.Kind == "ack":
			r.acks++
			ackOrder = append(ackOrder, e.Idx)
			if e.Arg != fmt.Sprintf("p%d", e.Idx) {
				bad("C08/acked-position-changed", "record %d was acknowledged with position %q", e.Idx, e.Arg)
			}
		case e.Comp == "dlq" && e.Kind == "ack":
			r.dlq++
		case e.Comp == "dlq" && e.Kind == "recv":
			r.dlqOrig = !strings.Contains(e.Arg, "piece=") // the DLQ must get the ORIGINAL record, not a piece
		case isDest(e.Comp) && e.Kind == "recv":
			if r.recv[e.Comp] == nil {
				r.recv[e.Comp] = map[string]int{}
			}
			r.recv[e.Comp][piece]++
			pth := ""
			if k := strings.Index(e.Arg, "path="); k >= 0 {
				pth = strings.SplitN(e.Arg[k+5:], "|", 2)[0]
			}
			r.paths[pth] = true
		case isDest(e.Comp) && e.Kind == "ack":
			if r.ackedPcs[e.Comp] == nil {
				r.ackedPcs[e.Comp] = map[string]bool{}
			}
			r.ackedPcs[e.Comp][piece] = true
		}
	}
	if degraded {
		bad("C08/pipeline-failed", "the pipeline ended degraded although every failure of this case is absorbed by the (unlimited) DLQ")
	}
	if !sort.IntsAreSorted(ackOrder) {
		bad("C08/ack-order", "source acks out of order: %v", ackOrder)
	}
	for i, r := range recs {
		want, pieces := c.expected(i)
		if r.acks != 1 {
			bad("C08/record-not-acked-exactly-once", "record %d was acknowledged to the source %d times (expected outcome %s)", i, r.acks, want)
		}
		switch want {
		case "filtered":
			if r.dlq != 0 {
				bad("C08/outcome-changed", "record %d should be filtered out but was dead-lettered", i)
			}
			for d, m := range r.ackedPcs {
				if len(m) > 0 && c.Stage2 == nil {
					bad("C08/outcome-changed", "record %d should be filtered out but was delivered to %s", i, d)
				}
			}
		case "dlq":
			if r.dlq != 1 {
				bad("C08/outcome-changed", "record %d should be dead-lettered exactly once (its processor errored or a destination rejected a piece) but the DLQ confirmed it %d times", i, r.dlq)
			} else if !r.dlqOrig {
				bad("C08/dlq-not-original", "record %d was dead-lettered but the DLQ received a piece / derived record, not the original", i)
			}
		case "delivered":
			wantPath := "p1,"
			if c.skipsStage1(i) {
				wantPath = ""
			}
			if c.Stage2 != nil {
				wantPath += "p2,"
			}
			for pth := range r.paths {
				if pth != wantPath {
					bad("C08/record-delivered-without-its-processing", "record %d reached a destination with processing path %q, expected %q: a stale or foreign copy of the record was delivered", i, pth, wantPath)
				}
			}
			if r.dlq != 0 {
				bad("C08/outcome-changed", "record %d should be delivered but was dead-lettered (another record's failure leaked onto it)", i)
			}
			for d := 0; d < c.Dests; d++ {
				dn := fmt.Sprintf("d%d", d)
				for _, pc := range pieces {
					if !r.ackedPcs[dn][pc] {
						bad("C08/outcome-changed", "record %d should be delivered but piece %q was never confirmed by %s", i, pc, dn)
					}
					if r.recv[dn][pc] > 1 {
						bad("C08/piece-delivered-twice", "piece %q of record %d was written %d times to %s", pc, i, r.recv[dn][pc], dn)
					}
				}
			}
		}
	}
	return out
}
