//go:build verif

package verifflow

import (
	"context"
	"fmt"
	"sort"
	"strings"
	"sync"
	"testing"
	"time"

	"github.com/conduitio/conduit/pkg/verifkit"
	"github.com/conduitio/conduit/pkg/verifkit/fakes"
	"github.com/conduitio/conduit/pkg/verifkit/stack"
)

// C03, restart half: every snapshot the store held at some instant of an explored history is a possible crash image.
// For every DISTINCT image the engine is really restarted on it (fresh services, Init, lifecycle Init) in a new
// bubble, with a healthy environment, and run to quiescence.

var (
	restartMu   sync.Mutex
	restartSeen = map[uint64][]verifkit.Violation{}
	restartRuns int
)

func snapshotHash(values map[string][]byte) uint64 {
	keys := make([]string, 0, len(values))
	for k := range values {
		keys = append(keys, k)
	}
	sort.Strings(keys)
	var sb strings.Builder
	for _, k := range keys {
		sb.WriteString(k)
		sb.WriteByte(0)
		sb.Write(values[k])
		sb.WriteByte(0)
	}
	return verifkit.Hash64(sb.String())
}

// checkRestarts restarts the engine on every distinct post-start snapshot of the execution.
func checkRestarts(t *testing.T, rep *verifkit.Report, p flowParams, x *verifkit.Exec) []verifkit.Violation {
	st, _ := x.Obs["stack"].(*stack.Stack)
	if st == nil {
		return nil
	}
	var out []verifkit.Violation
	started := false
	for _, snap := range st.DB.Snapshots() {
		desc := stack.Describe(snap.Values)
		pos, status, _ := stack.ParseDescribe(desc)
		if status == "Running" {
			started = true
		}
		if !started {
			continue
		}
		h := snapshotHash(snap.Values)
		restartMu.Lock()
		vs, done := restartSeen[verifkit.Hash64(p.name())^h]
		restartMu.Unlock()
		if !done {
			vs = restartOnce(t, rep, p, snap.Values, pos, status)
			restartMu.Lock()
			restartSeen[verifkit.Hash64(p.name())^h] = vs
			restartRuns++
			restartMu.Unlock()
		}
		for _, v := range vs {
			v.Text += fmt.Sprintf("\n(crash image = store content after commit #%d of the history below: %s)", snap.Seq, desc)
			out = append(out, v)
		}
	}
	return out
}

func restartOnce(t *testing.T, rep *verifkit.Report, p flowParams, values map[string][]byte, pos map[string]int, status string) []verifkit.Violation {
	hp := p
	hp.AckMenu, hp.DLQMenu, hp.ReadMenu, hp.Faults, hp.Blocked = onlyOK, onlyOK, nil, false, nil
	for i := range hp.Procs {
		hp.Procs[i].Menu = nil
	}
	scn := verifkit.Scenario{
		Name:   "restart/" + p.name(),
		Params: map[string]any{"flow": p, "image": stack.Describe(values)},
		Setup: func(x *verifkit.Exec) {
			plugins := fakes.NewPlugins(x.W)
			topo := hp.topology()
			for _, s := range topo.Sources {
				plugins.AddSource(s)
			}
			for _, d := range topo.Dests {
				plugins.AddDest(d)
			}
			plugins.AddDest(*topo.DLQ)
			procs := fakes.NewProcs(x.W)
			for _, pr := range hp.Procs {
				pr := pr
				procs.Add(fakes.ProcScript{Name: pr.ID, KindOf: func(_ string, idx, _ int) string {
					if idx >= 0 && idx < len(pr.Kinds) {
						return kindName(pr.Kinds[idx])
					}
					return "pass"
				}})
			}
			st, err := stack.New(x.W, plugins, verifkit.NewVDBFrom(x.W, values), stack.Options{Engine: engineOf(p.Engine), ProcPlugins: procs})
			if err != nil {
				x.W.Log("restart", "init-error", -1, err.Error())
				return
			}
			st.Arm()
			x.Obs["stack"] = st
			x.TickEnabled = true
			x.TickHorizon = 10 * time.Minute
			x.MaxTicks = 6
			x.AddControl(&verifkit.Control{Name: "boot", Do: func() {
				err := st.LC.Init(x.Ctx)
				x.W.Log("ctl", "boot.ret", -1, errStr(err))
			}})
			x.OnFinal(func() { x.W.Log("end", "status", -1, st.Status()) })
			x.OnCleanup(func() {
				go func() { _ = st.LC.Stop(context.Background(), stack.PipelineID, true) }()
			})
		},
	}
	e := &verifkit.Explorer{T: t, Rep: rep, Scn: scn}
	y := e.RunOnce(nil)
	rep.Trace()
	rep.Transitions(int64(len(y.Points)))
	var out []verifkit.Violation
	bad := func(key, f string, a ...any) {
		out = append(out, verifkit.Violation{Key: key, Text: fmt.Sprintf(f, a...) + "\nrestart run event log:\n" + verifkit.FormatLog(y.W.Events())})
	}
	opened := map[string]int{}
	openedAny := false
	delivered := map[string]map[recKey]bool{}
	dlq := map[recKey]bool{}
	for _, ev := range y.W.Events() {
		switch {
		case isSource(ev.Comp) && ev.Kind == "open":
			if _, dup := opened[ev.Comp]; !dup {
				opened[ev.Comp] = ev.Idx
			}
			openedAny = true
		case isDest(ev.Comp) && ev.Kind == "ack":
			if delivered[ev.Comp] == nil {
				delivered[ev.Comp] = map[recKey]bool{}
			}
			delivered[ev.Comp][recKey{strings.SplitN(ev.Arg, "|", 2)[0], ev.Idx}] = true
		case ev.Comp == "dlq" && ev.Kind == "ack":
			dlq[recKey{strings.SplitN(ev.Arg, "|", 2)[0], ev.Idx}] = true
		case ev.Comp == "restart" && ev.Kind == "init-error":
			bad("C03/restart-init-fails", "the services could not be initialised from the crash image: %s", ev.Arg)
		}
	}
	// Only a pipeline stored as Running must be found again as one to be resumed. (A pipeline that crashed while
	// Recovering is loaded as Recovering and left alone by the engine; the given properties do not demand more.)
	if status == "Running" {
		if !openedAny {
			bad("C03/running-pipeline-not-resumed", "the crash image says the pipeline was %s but it was not started again after the restart", status)
		}
	}
	for s, at := range opened {
		if want, ok := pos[s]; ok && at != want {
			bad("C03/restart-open-position", "after the restart source %s was opened at record %d, the crash image holds %d", s, at, want)
		}
	}
	if openedAny && y.Hang == "" && !y.StepCapHit && completenessApplies(hp) {
		for s, q := range pos {
			for i := q + 1; i < p.Records; i++ {
				if len(hp.Procs) > 0 && kindsFilter(hp, i) {
					continue
				}
				for d := 0; d < p.Dests; d++ {
					dn := fmt.Sprintf("d%d", d)
					if !delivered[dn][recKey{s, i}] && !dlq[recKey{s, i}] {
						bad("C03/record-skipped-after-restart", "record %d of %s (after the durable position %d) was never delivered to %s after the restart", i, s, q, dn)
					}
				}
			}
		}
	}
	return out
}

// completenessApplies: the restarted (healthy) run can be expected to deliver every record after the durable position
// only if no processor result of the scenario stops the pipeline on its own (an error the DLQ does not absorb, a reply
// shape the engine refuses) - then the run legitimately ends at that record.
func completenessApplies(p flowParams) bool {
	if p.Window > 0 {
		return false // the DLQ can refuse a rejection: the pipeline stops there
	}
	for _, pr := range p.Procs {
		for _, k := range pr.Kinds {
			switch k {
			case "", "p", "f", "e", "2", "3", "s":
			default:
				return false
			}
		}
	}
	return true
}

func kindsFilter(p flowParams, idx int) bool {
	for _, pr := range p.Procs {
		if idx < len(pr.Kinds) && (pr.Kinds[idx] == "f" || pr.Kinds[idx] == "e") {
			return true
		}
	}
	return false
}
