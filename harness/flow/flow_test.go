//go:build verif

// Package verifflow drives the full real stack (lifecycle service -> nodes/worker -> connector.Source/Destination ->
// persister -> store) with scripted plugins under the gatebox explorer.
package verifflow

import (
	"context"
	"fmt"
	"os"
	"sort"
	"strings"
	"testing"
	"time"

	"github.com/conduitio/conduit-commons/opencdc"
	"github.com/conduitio/conduit/pkg/pipeline"
	"github.com/conduitio/conduit/pkg/processor"
	"github.com/conduitio/conduit/pkg/provisioning/config"
	"github.com/conduitio/conduit/pkg/verifkit"
	"github.com/conduitio/conduit/pkg/verifkit/fakes"
	"github.com/conduitio/conduit/pkg/verifkit/stack"
)

// flowParams describes one scenario instance.
type flowParams struct {
	Engine          string              `json:"engine"`
	Sources         int                 `json:"sources"`
	Records         int                 `json:"records"`
	Batch           int                 `json:"batch"` // records per Read
	Dests           int                 `json:"dests"`
	AckMenu         []string            `json:"ack_menu"`
	DLQMenu         []string            `json:"dlq_menu"`
	Window          int                 `json:"dlq_window"`
	Thresh          int                 `json:"dlq_threshold"`
	Stop            string              `json:"stop"` // "", "stopwait", "stop+wait", "force"
	Bundle          int                 `json:"persister_bundle"`
	Faults          bool                `json:"store_faults"`
	ReadMenu        []string            `json:"read_menu"`
	Blocked         []string            `json:"blocked"` // connectors whose ack gate is never granted (unresponsive plugin)
	Restart         bool                `json:"restart"` // start the pipeline again after the stop completed
	Retries         int                 `json:"max_retries"`
	Procs           []procParam         `json:"procs"`
	PointOnly       []string            `json:"point_only"`       // preemptive part: sweep only points of these files
	MaxOcc          int                 `json:"max_occurrence"`   // preemptive part: sweep the first MaxOcc occurrences of every site (default 2)
	LateOpen        []string            `json:"late_open"`        // destinations whose Open gate sorts last (stays pending by default)
	LateCommit      bool                `json:"late_commit"`      // store commits stay in flight until nothing else can run (exploration order)
	FailDispense    []string            `json:"fail_dispense"`    // plugins whose next dispense fails once (the first start cannot build its nodes)
	CommitDelaysMs  []int               `json:"commit_delays_ms"` // the k-th store commit takes this long (virtual ms): a slow but responding store
	ChunkAcks       bool                `json:"chunk_acks"`       // forced destination answers (Reject) arrive one response per record
	AckScript       []string            `json:"ack_script"`       // forced answer of the k-th ack request of every destination (input script, not a choice)
	IdleBatches     []int               `json:"idle_batches"`     // source batches whose first read waits until no timer is left (quiet period)
	LatePut         bool                `json:"late_put"`         // non-transactional store writes (pipeline status) stay in flight until nothing else can run
	SiteWide        bool                `json:"site_wide"`        // preemptive part: hold every goroutine reaching the armed site
	AckSendFaults   bool                `json:"ack_send_faults"`  // every ack the engine sends to a source plugin may fail transiently (transport)
	LateAckRecv     bool                `json:"late_ack_recv"`    // source plugins are slow to receive acks (exploration order)
	GateDestOpen    bool                `json:"gate_dest_open"`   // destination Open calls are pending events with answers {ok, err}
	NoMatch         []int               `json:"no_match"`         // records that do not match the processors' condition (Cond: "match")
	GateSrcOpen     []string            `json:"gate_src_open"`    // sources whose Open is a pending event with answers {ok, err}
	GateDLQOpen     bool                `json:"gate_dlq_open"`    // the DLQ connector's Open is a pending event (an unresponsive DLQ during start-up)
	Reject          map[string][]string `json:"reject"`           // destination -> records/pieces it rejects (forced answers, C08)
	Apply           []string            `json:"apply"`            // live applies: "<kind>[+stale][+noauth]", kind in proc, twoprocs, conn, addproc; "||" prefix = concurrent with the previous one
	Reconf          []string            `json:"reconf"`           // live reconfigure requests for processor "pp": "A", "B" (concurrent), "cancelA"
	ProcOpenMenu    []string            `json:"proc_open_menu"`
	GracefulFirst   bool                `json:"graceful_first"`    // Stop="force": a graceful stop is requested (and accepted) first, the force stop follows while it drains
	ProcTeardownErr bool                `json:"proc_teardown_err"` // every processor Teardown reports an error (after doing its work)
	Ctl             []string            `json:"ctl"`               // explicit control history (after "start"): stop, wait, stopwait, force, stopall, start; one at a time
	SrcPositions    string              `json:"src_positions"`     // "" normal, "dup": record 1 repeats the position of record 0, "empty": record 1 has an empty position
}

// procParam describes one scripted processor of the scenario.
type procParam struct {
	ID      string   `json:"id"`
	Parent  string   `json:"parent"` // "" pipeline, else connector id
	Workers int      `json:"workers"`
	Gate    bool     `json:"gate"`
	Menu    []string `json:"menu"`
	Kinds   []string `json:"kinds"` // result kind per record index (default pass)
	Cond    string   `json:"cond"`
}

func (p flowParams) name() string {
	n := fmt.Sprintf("flow/%s/%dx%d/r%d/b%d/ack=%s/dlq=%s/w%d.%d/stop=%s", p.Engine, p.Sources, p.Dests, p.Records, p.Batch,
		strings.Join(p.AckMenu, ","), strings.Join(p.DLQMenu, ","), p.Window, p.Thresh, p.Stop)
	if p.Faults {
		n += "/storefaults"
	}
	if len(p.ReadMenu) > 0 {
		n += "/read=" + strings.Join(p.ReadMenu, ",")
	}
	if len(p.Blocked) > 0 {
		n += "/blocked=" + strings.Join(p.Blocked, ",")
	}
	if p.Restart {
		n += "/restart"
	}
	if p.GateDestOpen {
		n += "/destopen"
	}
	if len(p.GateSrcOpen) > 0 {
		n += "/srcopen=" + strings.Join(p.GateSrcOpen, ",")
	}
	if len(p.PointOnly) > 0 {
		n += "/points=" + strings.Join(p.PointOnly, ",")
	}
	if p.MaxOcc > 0 {
		n += fmt.Sprintf("/occ%d", p.MaxOcc)
	}
	if p.LateCommit {
		n += "/latecommit"
	}
	if p.LatePut {
		n += "/lateput"
	}
	if len(p.FailDispense) > 0 {
		n += "/faildispense=" + strings.Join(p.FailDispense, ",")
	}
	if len(p.CommitDelaysMs) > 0 {
		n += fmt.Sprintf("/slowcommits=%v", p.CommitDelaysMs)
	}
	if p.ChunkAcks {
		n += "/chunkacks"
	}
	if len(p.AckScript) > 0 {
		n += "/ackscript=" + strings.Join(p.AckScript, ",")
	}
	if len(p.IdleBatches) > 0 {
		n += fmt.Sprintf("/idle=%v", p.IdleBatches)
	}
	if p.SiteWide {
		n += "/sitewide"
	}
	if p.AckSendFaults {
		n += "/acksendfaults"
	}
	if p.ProcTeardownErr {
		n += "/procteardownerr"
	}
	if p.GracefulFirst {
		n += "/gracefulfirst"
	}
	if p.LateAckRecv {
		n += "/lateackrecv"
	}
	if len(p.LateOpen) > 0 {
		n += "/lateopen=" + strings.Join(p.LateOpen, ",")
	}
	if p.GateDLQOpen {
		n += "/dlqopen"
	}
	if p.Reject != nil {
		n += fmt.Sprintf("/reject=%v", p.Reject)
	}
	if p.SrcPositions != "" {
		n += "/srcpos=" + p.SrcPositions
	}
	if len(p.Ctl) > 0 {
		n += "/ctl=" + strings.Join(p.Ctl, ",")
	}
	if len(p.Apply) > 0 {
		n += "/apply=" + strings.Join(p.Apply, ",") + "/procopen=" + strings.Join(p.ProcOpenMenu, ",")
	}
	if len(p.Reconf) > 0 {
		n += "/reconf=" + strings.Join(p.Reconf, ",") + "/procopen=" + strings.Join(p.ProcOpenMenu, ",")
	}
	if p.Bundle > 0 {
		n += fmt.Sprintf("/bundle%d", p.Bundle)
	}
	if p.Retries != 0 {
		n += fmt.Sprintf("/retries%d", p.Retries)
	}
	for _, pr := range p.Procs {
		n += fmt.Sprintf("/proc=%s@%s.w%d.g%v.%s", pr.ID, pr.Parent, pr.Workers, pr.Gate, strings.Join(pr.Kinds, ""))
		if pr.Cond != "" {
			n += fmt.Sprintf(".cond%v", p.NoMatch)
		}
		if len(pr.Menu) > 0 {
			n += "." + strings.Join(pr.Menu, ",")
		}
	}
	return n
}

func (p flowParams) topology() stack.Topology {
	var t stack.Topology
	for s := 0; s < p.Sources; s++ {
		var batches [][]int
		for i := 0; i < p.Records; i += p.Batch {
			var b []int
			for j := i; j < i+p.Batch && j < p.Records; j++ {
				b = append(b, j)
			}
			batches = append(batches, b)
		}
		ss := fakes.SourceScript{Name: fmt.Sprintf("s%d", s), Batches: batches, ReadMenu: p.ReadMenu, NoMatch: p.NoMatch, LateAckRecv: p.LateAckRecv, IdleBatches: p.IdleBatches, AckSendFaults: p.AckSendFaults}
		switch p.SrcPositions {
		case "bare":
			ss.Bare = []int{1}
		case "dup":
			ss.PositionOf = func(i int) opencdc.Position {
				if i == 1 {
					return fakes.Pos(0)
				}
				return fakes.Pos(i)
			}
		case "empty":
			ss.PositionOf = func(i int) opencdc.Position {
				if i == 1 {
					return nil
				}
				return fakes.Pos(i)
			}
		}
		for _, g := range p.GateSrcOpen {
			if g == ss.Name {
				ss.GateOpen, ss.Faults = true, true
			}
		}
		t.Sources = append(t.Sources, ss)
	}
	for d := 0; d < p.Dests; d++ {
		ds := fakes.DestScript{Name: fmt.Sprintf("d%d", d), AckMenu: p.AckMenu, GateOpen: p.GateDestOpen, Faults: p.GateDestOpen}
		for _, l := range p.LateOpen {
			if l == ds.Name {
				ds.LateOpen = true
			}
		}
		if script := p.AckScript; len(script) > 0 {
			ds.ScriptAcrossRuns = true
			ds.MenuFor = func(k, _ int) []string {
				if k < len(script) {
					return []string{script[k]}
				}
				return []string{"ok"}
			}
		}
		if p.Reject != nil {
			ds.ChunkAcks = p.ChunkAcks
			ds.Reject = map[string]bool{}
			for _, k := range p.Reject[ds.Name] {
				ds.Reject[k] = true
			}
		}
		t.Dests = append(t.Dests, ds)
	}
	dlqMenu := p.DLQMenu
	if len(dlqMenu) == 0 {
		dlqMenu = []string{"ok"}
	}
	t.DLQ = &fakes.DestScript{Name: "dlq", AckMenu: dlqMenu, GateOpen: p.GateDLQOpen, Faults: p.GateDLQOpen}
	t.DLQWindow, t.DLQThreshold = p.Window, p.Thresh
	for _, pr := range p.Procs {
		cond := pr.Cond
		if cond == "match" {
			cond = fakes.MatchCondition
		}
		t.Procs = append(t.Procs, stack.ProcSpec{ID: pr.ID, Plugin: pr.ID, Parent: pr.Parent, Workers: pr.Workers, Condition: cond})
	}
	return t
}

func engineOf(s string) stack.Engine {
	if s == "v2" {
		return stack.V2
	}
	return stack.V1
}

// flowScenario builds the scenario: start the pipeline, let records flow, then (optionally) stop it.
func flowScenario(p flowParams) verifkit.Scenario {
	return verifkit.Scenario{
		Name:   p.name(),
		Params: p,
		Setup: func(x *verifkit.Exec) {
			plugins := fakes.NewPlugins(x.W)
			for _, fd := range p.FailDispense {
				if plugins.FailDispense == nil {
					plugins.FailDispense = map[string]int{}
				}
				plugins.FailDispense[fd]++
			}
			rec := stack.DefaultRecovery()
			if p.Retries != 0 {
				rec.MaxRetries = int64(p.Retries)
				if p.Retries < 0 {
					rec.MaxRetries = 0
				}
			}
			procs := fakes.NewProcs(x.W)
			for _, pr := range p.Procs {
				pr := pr
				procs.Add(fakes.ProcScript{Name: pr.ID, Gate: pr.Gate, Menu: pr.Menu, OpenMenu: p.ProcOpenMenu, TeardownErr: p.ProcTeardownErr, KindOf: func(_ string, idx, _ int) string {
					if idx >= 0 && idx < len(pr.Kinds) {
						return kindName(pr.Kinds[idx])
					}
					return "pass"
				}})
			}
			procs.Add(fakes.ProcScript{Name: "pnew", OpenMenu: p.ProcOpenMenu})
			var delays []time.Duration
			for _, ms := range p.CommitDelaysMs {
				delays = append(delays, time.Duration(ms)*time.Millisecond)
			}
			st, err := stack.New(x.W, plugins, nil, stack.Options{CommitDelays: delays, Engine: engineOf(p.Engine), ProcPlugins: procs, PersisterBundle: p.Bundle, LateCommits: p.LateCommit, LatePuts: p.LatePut, FaultCommits: p.Faults, FaultSets: p.Faults, Recovery: rec})
			if err != nil {
				panic(err)
			}
			if err := st.Provision(p.topology()); err != nil {
				panic(err)
			}
			st.Arm()
			x.Obs["stack"] = st
			x.TickEnabled = true
			x.TickHorizon = 30 * time.Minute
			x.MaxTicks = 12
			x.AddControl(&verifkit.Control{Name: "start", Do: func() {
				err := st.LC.Start(x.Ctx, stack.PipelineID)
				x.W.Log("ctl", "start.ret", -1, errStr(err))
			}})
			for ai, spec := range p.Apply {
				ai, spec := ai, spec
				startCtl := x.Controls[0]
				concurrent := strings.HasPrefix(spec, "||")
				spec = strings.TrimPrefix(spec, "||")
				parts := strings.Split(spec, "+")
				kind := parts[0]
				stale, stale2, noauth := false, false, false
				for _, f := range parts[1:] {
					stale = stale || f == "stale"
					stale2 = stale2 || f == "stale2"
					noauth = noauth || f == "noauth"
				}
				gen := fmt.Sprintf("g%d", ai+1)
				x.AddControl(&verifkit.Control{Name: fmt.Sprintf("apply#%d:%s", ai+1, spec), AfterPrevReturned: !concurrent, Enabled: startCtl.Returned, Do: func() {
					cur, err := st.Prov.Export(x.Ctx, stack.PipelineID)
					if err != nil {
						x.W.Log("ctl", "apply.ret", ai+1, "export: "+errStr(err))
						return
					}
					desired := clonePipelineConfig(cur)
					switch kind {
					case "proc", "twoprocs":
						for i := range desired.Processors {
							if kind == "proc" && desired.Processors[i].ID != "pp" {
								continue
							}
							desired.Processors[i].Settings = map[string]string{"gen": gen}
						}
					case "conn":
						for i := range desired.Connectors {
							if desired.Connectors[i].ID == "s0" {
								desired.Connectors[i].Settings = map[string]string{"x": gen}
							}
						}
					case "procbad": // a processor-only edit whose new configuration cannot even be BUILT (no such plugin)
						for i := range desired.Processors {
							if desired.Processors[i].ID == "pp" {
								desired.Processors[i].Plugin = "no-such-processor-plugin"
								desired.Processors[i].Settings = map[string]string{"gen": gen}
							}
						}
					case "dlqthresh": // only the nack threshold of the dead-letter queue changes
						th := 1
						if desired.DLQ.WindowNackThreshold != nil {
							th = *desired.DLQ.WindowNackThreshold + 1
						}
						desired.DLQ.WindowNackThreshold = &th
					case "addproc":
						desired.Processors = append(desired.Processors, config.Processor{ID: "pnew" + gen, Plugin: "pnew", Settings: map[string]string{"gen": gen}, Workers: 1})
					}
					diff, err := st.Prov.Plan(x.Ctx, desired)
					if err != nil {
						x.W.Log("ctl", "apply.ret", ai+1, "plan: "+errStr(err))
						return
					}
					if stale { // the state changes between plan and apply
						mut := clonePipelineConfig(cur)
						mut.Description = "changed-behind-the-plan"
						if _, err := st.Pipelines.Update(x.Ctx, stack.PipelineID, pipeline.Config{Name: mut.Name, Description: mut.Description}); err != nil {
							x.W.Log("ctl", "apply.mutate.err", ai+1, errStr(err))
						}
					}
					if stale2 { // ... the intervening change hits ANOTHER field of the very resource the plan updates
						if _, err := st.Processors.UpdateWhileRunning(x.Ctx, "pp", "pp", processor.Config{Settings: map[string]string{}, Workers: 2}); err != nil {
							x.W.Log("ctl", "apply.mutate.err", ai+1, errStr(err))
						}
					}
					x.W.Log("ctl", "apply.begin", ai+1, kind+"|base="+storedSummary(cur))
					res, err := st.Prov.ApplyPlanLive(x.Ctx, desired, diff.Hash, !noauth)
					stored := ""
					if ex, e2 := st.Prov.Export(x.Ctx, stack.PipelineID); e2 == nil {
						stored = storedSummary(ex)
					}
					x.W.Log("ctl", "apply.ret", ai+1, fmt.Sprintf("%s|mode=%s|stored=%s|status=%s", errStr(err), res.AppliedMode, stored, strings.SplitN(st.Status(), "|", 2)[0]))
				}})
			}
			if len(p.Reconf) > 0 {
				startCtl := x.Controls[0]
				ctxA, cancelA := context.WithCancel(x.Ctx)
				x.OnCleanup(cancelA)
				for _, r := range p.Reconf {
					r := r
					switch r {
					case "A", "B":
						gen, rctx := "g1", ctxA
						if r == "B" {
							gen, rctx = "g2", x.Ctx
						}
						x.AddControl(&verifkit.Control{Name: "reconf" + r, Enabled: startCtl.Returned, Do: func() {
							_, err := st.Processors.UpdateWhileRunning(x.Ctx, "pp", "pp", processor.Config{Settings: map[string]string{"gen": gen}, Workers: 1})
							if err == nil {
								err = st.LC.ReconfigureProcessor(rctx, stack.PipelineID, "pp")
							}
							x.W.Log("ctl", "reconf"+r+".ret", -1, errStr(err))
						}})
					case "cancelA":
						x.AddControl(&verifkit.Control{Name: "cancelA", Enabled: startCtl.Returned, Do: func() { cancelA() }})
					}
				}
			}
			for i, c := range p.Ctl {
				c, name := c, fmt.Sprintf("%s#%d", c, i+1)
				x.AddControl(&verifkit.Control{Name: name, AfterPrevReturned: true, Do: func() {
					var err error
					switch c {
					case "start":
						err = st.LC.Start(x.Ctx, stack.PipelineID)
					case "stop":
						err = st.LC.Stop(x.Ctx, stack.PipelineID, false)
					case "force":
						err = st.LC.Stop(x.Ctx, stack.PipelineID, true)
					case "wait":
						err = st.LC.WaitPipeline(stack.PipelineID)
					case "stopwait":
						err = st.LC.StopAndWait(x.Ctx, stack.PipelineID)
					case "stopall":
						if st.V1 != nil {
							st.V1.StopAll(x.Ctx, pipeline.ErrGracefulShutdown)
						} else {
							err = st.V2.StopAll(x.Ctx, false)
						}
					}
					x.W.Log("ctl", "hist."+c+".ret", i+1, errStr(err)+"|status="+strings.SplitN(st.Status(), "|", 2)[0])
				}})
			}
			switch p.Stop {
			case "stopwait":
				x.AddControl(&verifkit.Control{Name: "stopwait", AfterPrevReturned: true, Do: func() {
					err := st.LC.StopAndWait(x.Ctx, stack.PipelineID)
					x.W.Log("ctl", "stopwait.ret", -1, errStr(err))
				}})
			case "stop+wait":
				x.AddControl(&verifkit.Control{Name: "stop", AfterPrevReturned: true, Do: func() {
					err := st.LC.Stop(x.Ctx, stack.PipelineID, false)
					x.W.Log("ctl", "stop.ret", -1, errStr(err))
					if err == nil {
						err = st.LC.WaitPipeline(stack.PipelineID)
						x.W.Log("ctl", "wait.ret", -1, errStr(err))
					}
				}})
			case "stopall":
				x.AddControl(&verifkit.Control{Name: "stopall", AfterPrevReturned: true, Do: func() {
					if st.V1 != nil {
						st.V1.StopAll(x.Ctx, pipeline.ErrGracefulShutdown)
						x.W.Log("ctl", "stopall.ret", -1, "nil")
					} else {
						err := st.V2.StopAll(x.Ctx, false)
						x.W.Log("ctl", "stopall.ret", -1, errStr(err))
					}
					err := st.LC.Wait(time.Minute)
					x.W.Log("ctl", "waitall.ret", -1, errStr(err))
					// the runtime's shutdown sequence goes on with the persister (then closes the store)
					st.Persister.Wait()
					x.W.Log("ctl", "persisterwait.ret", -1, "nil")
				}})
			case "force":
				if p.GracefulFirst {
					x.AddControl(&verifkit.Control{Name: "gstop", AfterPrevReturned: true, Do: func() {
						err := st.LC.Stop(x.Ctx, stack.PipelineID, false)
						x.W.Log("ctl", "gstop.ret", -1, errStr(err))
					}})
				}
				x.AddControl(&verifkit.Control{Name: "force", AfterPrevReturned: true, Do: func() {
					err := st.LC.Stop(x.Ctx, stack.PipelineID, true)
					x.W.Log("ctl", "force.ret", -1, errStr(err))
					if err == nil {
						err = st.LC.WaitPipeline(stack.PipelineID)
						x.W.Log("ctl", "wait.ret", -1, errStr(err))
					}
				}})
			}
			if len(p.Blocked) > 0 {
				x.Filter = func(alt string) bool {
					for _, b := range p.Blocked {
						if strings.HasPrefix(alt, "g:"+b+".") {
							return false
						}
					}
					return true
				}
			}
			if p.Restart {
				x.AddControl(&verifkit.Control{Name: "restart", AfterPrevReturned: true, Do: func() {
					err := st.LC.Start(x.Ctx, stack.PipelineID)
					x.W.Log("ctl", "restart.ret", -1, errStr(err))
				}})
			}
			x.OnFinal(func() {
				x.W.Log("end", "status", -1, st.Status())
			})
			x.OnCleanup(func() { // wind the server down: force-stop whatever still runs
				go func() { _ = st.LC.Stop(context.Background(), stack.PipelineID, true) }()
			})
		},
		Check: func(x *verifkit.Exec) []verifkit.Violation {
			return checkFlow(p, x)
		},
		Outcome: func(x *verifkit.Exec) string {
			return outcomeOf(x)
		},
	}
}

func clonePipelineConfig(c config.Pipeline) config.Pipeline {
	out := c
	out.Connectors = nil
	for _, cn := range c.Connectors {
		cc := cn
		cc.Settings = map[string]string{}
		for k, v := range cn.Settings {
			cc.Settings[k] = v
		}
		cc.Processors = append([]config.Processor(nil), cn.Processors...)
		out.Connectors = append(out.Connectors, cc)
	}
	out.Processors = nil
	for _, pr := range c.Processors {
		pc := pr
		pc.Settings = map[string]string{}
		for k, v := range pr.Settings {
			pc.Settings[k] = v
		}
		out.Processors = append(out.Processors, pc)
	}
	return out
}

// storedSummary renders what the stored configuration says about the things the applies change.
func storedSummary(c config.Pipeline) string {
	var parts []string
	for _, pr := range c.Processors {
		g := pr.Settings["gen"]
		if g == "" {
			g = "g0"
		}
		parts = append(parts, pr.ID+"="+g)
	}
	for _, cn := range c.Connectors {
		if cn.Settings["x"] != "" {
			parts = append(parts, cn.ID+".x="+cn.Settings["x"])
		}
	}
	parts = append(parts, "desc="+c.Description)
	return strings.Join(parts, ",")
}

func kindName(k string) string {
	switch k {
	case "p", "":
		return "pass"
	case "f":
		return "filter"
	case "e":
		return "error"
	case "2":
		return "split2"
	case "3":
		return "split3"
	case "s":
		return "shortonce"
	case "m":
		return "fmid"
	case "E":
		return "errshort"
	case "1":
		return "multi1pos"
	}
	return k
}

func errStr(err error) string {
	if err == nil {
		return "nil"
	}
	s := err.Error()
	if len(s) > 160 {
		s = s[:160]
	}
	return s
}

// outcomeOf summarises an execution: which records each source saw acked, what reached each destination / the DLQ.
func outcomeOf(x *verifkit.Exec) string {
	acks := map[string][]int{}
	var comps []string
	for _, e := range x.W.Events() {
		switch e.Kind {
		case "ack", "nack", "recv":
			k := e.Comp + "." + e.Kind
			if _, ok := acks[k]; !ok {
				comps = append(comps, k)
			}
			acks[k] = append(acks[k], e.Idx)
		}
	}
	sort.Strings(comps)
	var sb strings.Builder
	for _, e := range x.W.Events() {
		if e.Comp == "ctl" && strings.HasPrefix(e.Kind, "reconf") {
			a := e.Arg
			if len(a) > 24 {
				a = a[:24]
			}
			sb.WriteString(e.Kind + "=" + a + ";")
		}
	}
	for _, c := range x.Controls {
		if strings.HasPrefix(c.Name, "reconf") && c.Issued() && !c.ReturnedInTime() {
			sb.WriteString(c.Name + "=NEVER-RETURNED;")
		}
	}
	for _, c := range comps {
		fmt.Fprintf(&sb, "%s=%v;", c, acks[c])
	}
	evs := x.W.Events()
	if len(evs) > 0 && evs[len(evs)-1].Comp == "end" {
		sb.WriteString("end=" + strings.SplitN(evs[len(evs)-1].Arg, "|", 2)[0])
	}
	if x.Hang != "" {
		sb.WriteString(";HANG")
	}
	return sb.String()
}

var _ = context.Background

func runFlow(t *testing.T, rep *verifkit.Report, p flowParams, bound int, deadline time.Time) {
	e := &verifkit.Explorer{T: t, Rep: rep, Scn: flowScenario(p), MaxBound: bound, Deadline: deadline}
	e.Explore()
}

var leaks int

func firstLines(s string, n int) string {
	l := strings.Split(s, "\n")
	if len(l) > n {
		l = l[:n]
	}
	return strings.Join(l, "\n")
}

func TestVerifFlow(t *testing.T) {
	prop := os.Getenv("VERIF_PROPERTY")
	rep := verifkit.NewReport(prop, "flow")
	defer func() {
		if err := rep.Write(); err != nil {
			t.Fatal(err)
		}
		if rep.Violations() > 0 {
			t.Fail()
		}
	}()
	list := scenariosFor(prop)
	if len(list) == 0 {
		t.Fatalf("no flow scenarios registered for %q", prop)
	}
	deadline := verifkit.Deadline(150*time.Second, 25*time.Minute)
	defer func() { rep.Extra("restart_runs_on_distinct_crash_images", restartRuns) }()
	for _, sc := range list {
		if only := os.Getenv("VERIF_ONLY"); only != "" && !strings.Contains(sc.p.name(), only) {
			continue
		}
		scn := flowScenario(sc.p)
		inner := scn.Check
		params := sc.p
		scn.Check = func(x *verifkit.Exec) []verifkit.Violation {
			vs := inner(x)
			if x.Obs["leak"] != nil {
				leaks++
				rep.Extra("executions_with_goroutines_outliving_the_run", leaks)
				if leaks == 1 {
					rep.Extra("first_leak_stack", firstLines(x.Obs["leak"].(string), 12))
				}
			}
			if prop == "C03" {
				vs = append(vs, checkRestarts(t, rep, params, x)...)
			}
			return filterFor(prop, vs)
		}
		e := &verifkit.Explorer{T: t, Rep: rep, Scn: scn, MaxBound: sc.bound(), Deadline: deadline}
		e.Explore()
	}
}

// filterFor keeps the violations that belong to the property being decided (every property has its own check over
// the same scenarios) plus harness-level findings.
func filterFor(prop string, vs []verifkit.Violation) []verifkit.Violation {
	var out []verifkit.Violation
	for _, v := range vs {
		if prop == "C13" && (strings.HasPrefix(v.Key, "C01/") || strings.HasPrefix(v.Key, "C04/") || strings.HasPrefix(v.Key, "C05/")) {
			v.Key = "C13/order-acks-positions-affected:" + v.Key // a live reconfigure must leave order, acks and positions unaffected
		}
		if prop == "C13" && strings.HasPrefix(v.Key, "C16/running-config-differs-from-stored") && !strings.Contains(v.Key, "/rollback-reopen-failed") && !strings.Contains(v.Key, "/apply-raced") {
			v.Key = "C13/previous-configuration-not-kept-after-failed-open" // the new configuration could not be opened: only the old one may run afterwards
		}
		if prop == "C16" && (strings.HasPrefix(v.Key, "C01/") || strings.HasPrefix(v.Key, "C03/") || strings.HasPrefix(v.Key, "C05/") || strings.HasPrefix(v.Key, "C02/position-covers-unhandled")) {
			v.Key = "C16/record-lost-or-reordered-across-apply:" + v.Key // the apply must continue from the durable position with no skipped record
		}
		if prop == "C01" && strings.HasPrefix(v.Key, "C02/position-covers-unhandled") {
			// the stored position only moves through connector.Source.Ack: a position that covers a record no destination
			// confirmed shows that the source connector was told (even when its plugin is already gone and sees no ack)
			v.Key = "C01/ack-before-destination/seen-in-stored-position"
		}
		if prop == "C16" && len(v.Key) >= 4 && (strings.HasPrefix(v.Key, "C11/run-alive-but-status-stopped") || strings.HasPrefix(v.Key, "C11/start-refused-after-run-ended") || strings.HasPrefix(v.Key, "C06/teardown-count")) {
			// a failed apply leaves the pipeline unchanged or CLEANLY stopped: nothing of the failed restart stays open,
			// and the retry the error asks for is possible
			v.Key = "C16/not-cleanly-stopped-after-apply:" + v.Key
		}
		if prop == "C17" && (strings.HasPrefix(v.Key, "C10/shutdown-status") || (strings.HasPrefix(v.Key, "C10/stop-request-status") && strings.Contains(v.Text, "StopAll"))) {
			// lifecycle Init resumes exactly the pipelines stored as SystemStopped (pipeline Init turns a stored Running into
			// it): any other status left by a graceful shutdown means the running pipeline is not found again
			v.Key = "C17/running-pipeline-not-stored-as-resumable"
		}
		if prop == "C20" && (strings.HasPrefix(v.Key, "C10/fatal-cause-recovered") || strings.HasPrefix(v.Key, "C10/fatal-cause-not-degraded")) {
			v.Key = "C20/fatal-mark-lost-between-node-and-service/" + v.Key[strings.LastIndex(v.Key, "/")+1:]
		}
		if prop == "C09" {
			// C09 on the full stack: whatever shape a plugin replies with, the engine neither acknowledges an affected
			// record nor fails to terminate. (Panics are caught by the driver: the crashing schedule is journaled.)
			switch {
			case strings.HasPrefix(v.Key, "C01/ack-before-destination"), strings.HasPrefix(v.Key, "C02/position-covers-unhandled"):
				v.Key = "C09/affected-record-acknowledged"
			case strings.HasPrefix(v.Key, "C06/stop-never-returns"):
				v.Key = "C09/engine-wedged-by-reply-shape" // every plugin answered, in a legal if unusual shape, and the engine hangs
			}
		}
		if prop == "SMOKE" || prop == "PROC" || strings.HasPrefix(v.Key, prop+"/") || strings.HasPrefix(v.Key, "harness/") || (strings.HasPrefix(v.Key, "hang/") && (prop == "C09" || prop == "C11" || prop == "C12" || prop == "C06")) {
			out = append(out, v)
		}
	}
	return out
}

// TestVerifFlowPreempt is the preemptive tier: engine files named in the check's part are instrumented with a scheduling
// point before every statement; besides the environment schedule, ONE goroutine is preempted at every point occurrence of
// the default execution (it resumes only when nothing else can run, or earlier as a further deviation).
func TestVerifFlowPreempt(t *testing.T) {
	prop := os.Getenv("VERIF_PROPERTY")
	rep := verifkit.NewReport(prop, "flow-preempt")
	defer func() {
		if err := rep.Write(); err != nil {
			t.Fatal(err)
		}
		if rep.Violations() > 0 {
			t.Fail()
		}
	}()
	deadline := verifkit.Deadline(150*time.Second, 25*time.Minute)
	for _, sc := range preemptScenariosFor(prop) {
		if only := os.Getenv("VERIF_ONLY"); only != "" && !strings.Contains(sc.p.name(), only) {
			continue
		}
		scn := flowScenario(sc.p)
		scn.Name = "preempt/" + scn.Name
		scn.PointFiles = true
		inner := scn.Check
		scn.Check = func(x *verifkit.Exec) []verifkit.Violation { return filterFor(prop, inner(x)) }
		pb := sc.bound()
		e := &verifkit.Explorer{T: t, Rep: rep, Scn: scn, MaxBound: 0, PreemptBound: &pb, MaxPointOccurrence: 2, Deadline: deadline}
		if verifkit.Thorough() {
			e.CandidateBound = 1
		}
		e.SiteWide = sc.p.SiteWide
		if sc.p.MaxOcc > 0 {
			e.MaxPointOccurrence = sc.p.MaxOcc
		}
		if e.SiteWide {
			e.CandidateBound = 1 // sites are few: also take those only failing / stopping runs reach
		}
		if only := sc.p.PointOnly; len(only) > 0 {
			e.PointFilter = func(occ string) bool {
				for _, f := range only {
					if strings.HasPrefix(occ, f+":") {
						return true
					}
				}
				return false
			}
		}
		e.Explore()
	}
}
