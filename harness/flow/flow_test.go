//go:build verif

// Package verifflow drives the full real stack (lifecycle service -> nodes/worker -> connector.Source/Destination ->
// persister -> store) with scripted plugins under the gatebox explorer.
package verifflow

import (
	"context"
	"fmt"
	"sort"
	"strings"
	"testing"
	"time"

	"github.com/conduitio/conduit/pkg/verifkit"
	"github.com/conduitio/conduit/pkg/verifkit/fakes"
	"github.com/conduitio/conduit/pkg/verifkit/stack"
)

// flowParams describes one scenario instance.
type flowParams struct {
	Engine   string   `json:"engine"`
	Sources  int      `json:"sources"`
	Records  int      `json:"records"`
	Batch    int      `json:"batch"` // records per Read
	Dests    int      `json:"dests"`
	AckMenu  []string `json:"ack_menu"`
	DLQMenu  []string `json:"dlq_menu"`
	Window   int      `json:"dlq_window"`
	Thresh   int      `json:"dlq_threshold"`
	Stop     string   `json:"stop"` // "", "stopwait", "stop+wait", "force"
	Bundle   int      `json:"persister_bundle"`
	Faults   bool     `json:"store_faults"`
	ReadMenu []string `json:"read_menu"`
}

func (p flowParams) name() string {
	return fmt.Sprintf("flow/%s/%dx%d/r%d/b%d/ack=%s/dlq=%s/w%d.%d/stop=%s/faults=%v", p.Engine, p.Sources, p.Dests, p.Records, p.Batch,
		strings.Join(p.AckMenu, ","), strings.Join(p.DLQMenu, ","), p.Window, p.Thresh, p.Stop, p.Faults)
}

func (p flowParams) topology() stack.Topology {
	var t stack.Topology
	for s := 0; s < p.Sources; s++ {
		var batches [][]int
		for i := 0; i < p.Records; i += p.Batch {
			var b []int
			for j := i; j < i+p.Batch && j < p.Records; j++ {
				b = append(b, j)
			}
			batches = append(batches, b)
		}
		t.Sources = append(t.Sources, fakes.SourceScript{Name: fmt.Sprintf("s%d", s), Batches: batches, ReadMenu: p.ReadMenu})
	}
	for d := 0; d < p.Dests; d++ {
		t.Dests = append(t.Dests, fakes.DestScript{Name: fmt.Sprintf("d%d", d), AckMenu: p.AckMenu})
	}
	dlqMenu := p.DLQMenu
	if len(dlqMenu) == 0 {
		dlqMenu = []string{"ok"}
	}
	t.DLQ = &fakes.DestScript{Name: "dlq", AckMenu: dlqMenu}
	t.DLQWindow, t.DLQThreshold = p.Window, p.Thresh
	return t
}

func engineOf(s string) stack.Engine {
	if s == "v2" {
		return stack.V2
	}
	return stack.V1
}

// flowScenario builds the scenario: start the pipeline, let records flow, then (optionally) stop it.
func flowScenario(p flowParams) verifkit.Scenario {
	return verifkit.Scenario{
		Name:   p.name(),
		Params: p,
		Setup: func(x *verifkit.Exec) {
			plugins := fakes.NewPlugins(x.W)
			st, err := stack.New(x.W, plugins, nil, stack.Options{Engine: engineOf(p.Engine), PersisterBundle: p.Bundle, FaultCommits: p.Faults, FaultSets: p.Faults})
			if err != nil {
				panic(err)
			}
			if err := st.Provision(p.topology()); err != nil {
				panic(err)
			}
			st.Arm()
			x.Obs["stack"] = st
			x.TickEnabled = true
			x.TickHorizon = 30 * time.Minute
			x.MaxTicks = 12
			x.AddControl(&verifkit.Control{Name: "start", Do: func() {
				err := st.LC.Start(x.Ctx, stack.PipelineID)
				x.W.Log("ctl", "start.ret", -1, errStr(err))
			}})
			switch p.Stop {
			case "stopwait":
				x.AddControl(&verifkit.Control{Name: "stopwait", AfterPrevReturned: true, Do: func() {
					err := st.LC.StopAndWait(x.Ctx, stack.PipelineID)
					x.W.Log("ctl", "stopwait.ret", -1, errStr(err))
				}})
			case "stop+wait":
				x.AddControl(&verifkit.Control{Name: "stop", AfterPrevReturned: true, Do: func() {
					err := st.LC.Stop(x.Ctx, stack.PipelineID, false)
					x.W.Log("ctl", "stop.ret", -1, errStr(err))
					if err == nil {
						err = st.LC.WaitPipeline(stack.PipelineID)
						x.W.Log("ctl", "wait.ret", -1, errStr(err))
					}
				}})
			case "force":
				x.AddControl(&verifkit.Control{Name: "force", AfterPrevReturned: true, Do: func() {
					err := st.LC.Stop(x.Ctx, stack.PipelineID, true)
					x.W.Log("ctl", "force.ret", -1, errStr(err))
					if err == nil {
						err = st.LC.WaitPipeline(stack.PipelineID)
						x.W.Log("ctl", "wait.ret", -1, errStr(err))
					}
				}})
			}
			x.OnFinal(func() {
				x.W.Log("end", "status", -1, st.Status())
			})
			x.OnCleanup(func() { // wind the server down: force-stop whatever still runs
				go func() { _ = st.LC.Stop(context.Background(), stack.PipelineID, true) }()
			})
		},
		Check: func(x *verifkit.Exec) []verifkit.Violation {
			return checkFlow(p, x)
		},
		Outcome: func(x *verifkit.Exec) string {
			return outcomeOf(x)
		},
	}
}

func errStr(err error) string {
	if err == nil {
		return "nil"
	}
	s := err.Error()
	if len(s) > 160 {
		s = s[:160]
	}
	return s
}

// outcomeOf summarises an execution: which records each source saw acked, what reached each destination / the DLQ.
func outcomeOf(x *verifkit.Exec) string {
	acks := map[string][]int{}
	var comps []string
	for _, e := range x.W.Events() {
		switch e.Kind {
		case "ack", "nack", "recv":
			k := e.Comp + "." + e.Kind
			if _, ok := acks[k]; !ok {
				comps = append(comps, k)
			}
			acks[k] = append(acks[k], e.Idx)
		}
	}
	sort.Strings(comps)
	var sb strings.Builder
	for _, c := range comps {
		fmt.Fprintf(&sb, "%s=%v;", c, acks[c])
	}
	evs := x.W.Events()
	if len(evs) > 0 && evs[len(evs)-1].Comp == "end" {
		sb.WriteString("end=" + strings.SplitN(evs[len(evs)-1].Arg, "|", 2)[0])
	}
	if x.Hang != "" {
		sb.WriteString(";HANG")
	}
	return sb.String()
}

// checkFlow evaluates the data-path oracles (C01, C04, C05, parts of C07) on the event log.
func checkFlow(p flowParams, x *verifkit.Exec) []verifkit.Violation {
	var out []verifkit.Violation
	evs := x.W.Events()
	bad := func(key, format string, a ...any) {
		out = append(out, verifkit.Violation{Key: key, Text: fmt.Sprintf(format, a...)})
	}
	if x.Panic != "" {
		bad("harness/panic", "panic during execution: %s", x.Panic)
	}
	dests := []string{}
	for d := 0; d < p.Dests; d++ {
		dests = append(dests, fmt.Sprintf("d%d", d))
	}
	type key struct {
		src string
		idx int
	}
	// per open-epoch of a source
	epoch := map[string]int{}
	type epKey struct {
		src string
		ep  int
	}
	emitted := map[epKey][]int{}
	acked := map[epKey][]int{}
	destOK := map[string]map[key]bool{}  // dest -> record -> positively acked (so far)
	dlqOK := map[key]bool{}              // dlq acked the record (so far)
	dlqRecv := map[key]int{}             // DLQ writes per record in the current run
	recvOrder := map[string]map[string][]int{} // dest -> src -> indices in receive order (per epoch reset)
	for _, d := range dests {
		destOK[d] = map[key]bool{}
		recvOrder[d] = map[string][]int{}
	}
	recvOrder["dlq"] = map[string][]int{}
	for _, e := range evs {
		isSrc := strings.HasPrefix(e.Comp, "s") && len(e.Comp) == 2
		switch {
		case isSrc && e.Kind == "open":
			epoch[e.Comp]++
			for _, d := range dests {
				recvOrder[d][e.Comp] = nil
			}
			recvOrder["dlq"][e.Comp] = nil
			for k := range dlqRecv {
				if k.src == e.Comp {
					delete(dlqRecv, k)
				}
			}
		case isSrc && e.Kind == "emit":
			ek := epKey{e.Comp, epoch[e.Comp]}
			emitted[ek] = append(emitted[ek], e.Idx)
		case isSrc && e.Kind == "ack":
			ek := epKey{e.Comp, epoch[e.Comp]}
			acked[ek] = append(acked[ek], e.Idx)
			k := key{e.Comp, e.Idx}
			// C01: every destination confirmed, or the DLQ did
			if !dlqOK[k] {
				for _, d := range dests {
					if !destOK[d][k] {
						bad("C01/ack-before-destination", "source %s was told record %d is acknowledged before destination %s (or the DLQ) confirmed it (event #%d)", e.Comp, e.Idx, d, e.Seq)
						break
					}
				}
			}
			// C04: acks are a prefix of the emitted sequence, in order, no repeats
			n := len(acked[ek])
			if n > len(emitted[ek]) || emitted[ek][n-1] != e.Idx {
				bad("C04/ack-order", "source %s epoch %d: ack sequence %v is not a prefix of the emitted sequence %v (event #%d)", e.Comp, ek.ep, acked[ek], emitted[ek], e.Seq)
			}
		case e.Kind == "recv" && e.Comp != "dlq":
			src := strings.SplitN(e.Arg, "|", 2)[0]
			seq := recvOrder[e.Comp][src]
			if len(seq) > 0 && seq[len(seq)-1] >= e.Idx {
				bad("C05/destination-order", "destination %s received record %d of %s after %v within one run (event #%d)", e.Comp, e.Idx, src, seq, e.Seq)
			}
			recvOrder[e.Comp][src] = append(seq, e.Idx)
		case e.Kind == "recv" && e.Comp == "dlq":
			src := strings.SplitN(e.Arg, "|", 2)[0]
			k := key{src, e.Idx}
			dlqRecv[k]++
			if dlqRecv[k] > 1 {
				bad("C07/dlq-twice", "record %d of %s was written to the DLQ %d times within one run (event #%d)", e.Idx, src, dlqRecv[k], e.Seq)
			}
			seq := recvOrder["dlq"][src]
			if len(seq) > 0 && seq[len(seq)-1] >= e.Idx {
				bad("C07/dlq-order", "DLQ received record %d of %s after %v (event #%d)", e.Idx, src, seq, e.Seq)
			}
			recvOrder["dlq"][src] = append(seq, e.Idx)
			parts := strings.Split(e.Arg, "|")
			if len(parts) < 4 || parts[2] == "" || parts[3] == "" {
				bad("C07/dlq-metadata", "DLQ record for %s:%d lacks the failing component / error (%q)", src, e.Idx, e.Arg)
			}
		case e.Kind == "ack" && e.Comp == "dlq":
			dlqOK[key{strings.SplitN(e.Arg, "|", 2)[0], e.Idx}] = true
		case e.Kind == "ack" && destOK[e.Comp] != nil:
			destOK[e.Comp][key{strings.SplitN(e.Arg, "|", 2)[0], e.Idx}] = true
		}
	}
	if x.Hang != "" {
		bad("hang/goroutine-leak", "goroutines of the engine were still blocked after the execution was wound down: %s\n%s", x.Hang, x.LeakStacks)
	}
	return out
}

var _ = context.Background

func runFlow(t *testing.T, rep *verifkit.Report, p flowParams, bound int, deadline time.Time) {
	e := &verifkit.Explorer{T: t, Rep: rep, Scn: flowScenario(p), MaxBound: bound, Deadline: deadline}
	e.Explore()
}

func TestVerifFlowSmoke(t *testing.T) {
	rep := verifkit.NewReport("C01", "smoke")
	defer func() {
		if err := rep.Write(); err != nil {
			t.Fatal(err)
		}
		if rep.Violations() > 0 {
			t.Fail()
		}
	}()
	deadline := verifkit.Deadline(60*time.Second, 10*time.Minute)
	for _, eng := range []string{"v1", "v2"} {
		p := flowParams{Engine: eng, Sources: 1, Records: 2, Batch: 1, Dests: 2, AckMenu: []string{"ok", "nack"}, Window: 0, Thresh: 0, Stop: "stopwait"}
		runFlow(t, rep, p, 1, deadline)
	}
}
