//go:build verif

package verifflow

import "github.com/conduitio/conduit/pkg/verifkit"

type scn struct {
	p     flowParams
	quick int // deviation bound in the quick tier
	thor  int // deviation bound in the thorough tier
}

func (s scn) bound() int {
	if verifkit.Thorough() {
		return s.thor
	}
	return s.quick
}

var okNack = []string{"ok", "nack"}
var onlyOK = []string{"ok"}

// scenariosFor lists the scenario instances explored for a property (simplest first).
func scenariosFor(prop string) []scn {
	var out []scn
	both := func(p flowParams, q, t int) {
		for _, e := range []string{"v1", "v2"} {
			p.Engine = e
			out = append(out, scn{p, q, t})
		}
	}
	data := func() {
		both(flowParams{Sources: 1, Records: 2, Batch: 1, Dests: 2, AckMenu: okNack, Stop: "stopwait"}, 2, 3)
		both(flowParams{Sources: 1, Records: 3, Batch: 1, Dests: 2, AckMenu: onlyOK, Stop: "stopwait"}, 2, 4)
		both(flowParams{Sources: 1, Records: 2, Batch: 1, Dests: 3, AckMenu: onlyOK, Stop: ""}, 2, 4)
		both(flowParams{Sources: 2, Records: 2, Batch: 1, Dests: 2, AckMenu: okNack, Stop: "stopwait"}, 1, 2)
		both(flowParams{Sources: 1, Records: 3, Batch: 2, Dests: 2, AckMenu: []string{"ok", "nack", "n:10", "n:01"}, Stop: ""}, 1, 3)
		both(flowParams{Sources: 1, Records: 2, Batch: 1, Dests: 1, AckMenu: okNack, DLQMenu: okNack, Stop: "stopwait"}, 2, 4)
		both(flowParams{Sources: 1, Records: 2, Batch: 1, Dests: 2, AckMenu: okNack, Stop: "force"}, 1, 3)
		both(flowParams{Sources: 1, Records: 2, Batch: 1, Dests: 2, AckMenu: []string{"ok", "err"}, ReadMenu: []string{"ok", "err"}, Stop: ""}, 1, 2)
		// the DEFAULT dead-letter configuration (window 1, threshold 0: nothing is tolerated) while a node fails or the run is
		// force-stopped with several records in flight: the records nacked by the teardown are neither dead-lettered nor acked
		both(flowParams{Sources: 1, Records: 3, Batch: 1, Dests: 2, AckMenu: []string{"ok", "err"}, Window: 1, Thresh: 0, Stop: ""}, 2, 3)
		both(flowParams{Sources: 1, Records: 3, Batch: 1, Dests: 1, AckMenu: []string{"ok", "defer", "err"}, Window: 1, Thresh: 0, Stop: "force"}, 2, 3)
		both(flowParams{Sources: 1, Records: 3, Batch: 1, Dests: 1, AckMenu: onlyOK, ReadMenu: []string{"ok", "err"}, Window: 1, Thresh: 0, Stop: ""}, 2, 3)
		// fan-out with a failing DLQ: a sibling branch votes for later positions after the release of an earlier one failed
		both(flowParams{Sources: 1, Records: 3, Batch: 1, Dests: 2, AckMenu: okNack, DLQMenu: okNack, Stop: ""}, 2, 3)
		both(flowParams{Sources: 1, Records: 5, Batch: 5, Dests: 2, AckMenu: []string{"ok", "n:00100", "n:01000"}, DLQMenu: okNack, Stop: ""}, 2, 3)
		// a per-destination processor rejects a record in the middle of a batch: that branch writes and votes in pieces
		both(flowParams{Sources: 1, Records: 5, Batch: 5, Dests: 2, AckMenu: onlyOK, DLQMenu: okNack, Procs: []procParam{{ID: "dp", Parent: "d1", Kinds: []string{"p", "p", "e", "p", "p"}}}}, 2, 3)
		// a DLQ that rejects a record in the middle of one write (v2 writes dead-lettered records in batches)
		both(flowParams{Sources: 1, Records: 3, Batch: 3, Dests: 1, AckMenu: []string{"nack", "ok", "n:011", "n:110"}, DLQMenu: []string{"ok", "n:010", "n:01", "n:10", "nack"}, Stop: ""}, 2, 3)
		// a destination that is still opening (or fails to open) while records already flow to its siblings
		both(flowParams{Sources: 1, Records: 1, Batch: 1, Dests: 2, AckMenu: onlyOK, GateDestOpen: true, Stop: ""}, 3, 4)
		both(flowParams{Sources: 1, Records: 2, Batch: 1, Dests: 2, AckMenu: onlyOK, GateDestOpen: true, Stop: ""}, 2, 3)
		both(flowParams{Sources: 1, Records: 1, Batch: 1, Dests: 1, AckMenu: okNack, GateDLQOpen: true, Stop: "force"}, 3, 4)
		// parallel processor workers
		both(flowParams{Sources: 1, Records: 3, Batch: 1, Dests: 1, AckMenu: onlyOK, Procs: []procParam{{ID: "pp", Workers: 2, Gate: true}}}, 2, 3)
		both(flowParams{Sources: 1, Records: 3, Batch: 1, Dests: 2, AckMenu: onlyOK, Procs: []procParam{{ID: "pp", Workers: 3, Gate: true, Kinds: []string{"p", "f", "p"}}}}, 1, 3)
		// parallel workers behind a condition: records that do not match pass through while matching ones are in a worker
		both(flowParams{Sources: 1, Records: 3, Batch: 1, Dests: 1, AckMenu: onlyOK, NoMatch: []int{1}, Procs: []procParam{{ID: "pp", Workers: 2, Gate: true, Cond: "match"}}}, 2, 3)
		both(flowParams{Sources: 1, Records: 3, Batch: 3, Dests: 1, AckMenu: onlyOK, NoMatch: []int{0, 2}, Procs: []procParam{{ID: "pp", Workers: 2, Gate: true, Cond: "match"}}}, 1, 3)
		// store faults, bundle-count flushes, several sources sharing the persister
		both(flowParams{Sources: 1, Records: 3, Batch: 1, Dests: 1, AckMenu: onlyOK, Stop: "stopwait", Faults: true, Bundle: 2}, 2, 3)
		both(flowParams{Sources: 2, Records: 2, Batch: 1, Dests: 1, AckMenu: onlyOK, Stop: "stopwait", Faults: true}, 1, 2)
		both(flowParams{Sources: 1, Records: 3, Batch: 1, Dests: 2, AckMenu: okNack, Stop: "stopwait", Bundle: 2}, 2, 3)
		both(flowParams{Sources: 1, Records: 4, Batch: 2, Dests: 1, AckMenu: onlyOK, Stop: "force", Faults: true, Bundle: 3}, 1, 2)
		// a flush whose commit stays in flight while later acks arrive and the run is stopped (force / graceful): a second
		// flush must not overtake it
		both(flowParams{Sources: 1, Records: 3, Batch: 1, Dests: 1, AckMenu: onlyOK, Stop: "force", Bundle: 2, LateCommit: true}, 2, 3)
		both(flowParams{Sources: 1, Records: 3, Batch: 1, Dests: 1, AckMenu: onlyOK, Stop: "stopwait", Bundle: 2, LateCommit: true}, 1, 2)
		both(flowParams{Sources: 1, Records: 3, Batch: 1, Dests: 1, AckMenu: onlyOK, Procs: []procParam{{ID: "pp", Kinds: []string{"p", "f", "p"}}}}, 1, 2)
		// a processor rejects a later record while an earlier one still waits for its destination (which may reject it too):
		// dead-lettering and the nack window must follow source order, not arrival order
		both(flowParams{Sources: 1, Records: 2, Batch: 1, Dests: 1, AckMenu: okNack, Procs: []procParam{{ID: "pp", Kinds: []string{"p", "e"}}}}, 2, 3)
		both(flowParams{Sources: 1, Records: 2, Batch: 1, Dests: 1, AckMenu: okNack, Window: 2, Thresh: 1, Procs: []procParam{{ID: "pp", Kinds: []string{"p", "e"}}}}, 2, 3)
		// a destination that confirms one write in several responses (record by record / in two halves), rejections in the
		// later ones
		both(flowParams{Sources: 1, Records: 4, Batch: 4, Dests: 1, AckMenu: []string{"ok", "k:0011", "h:0011", "k:0110", "k:1001"}, Stop: ""}, 1, 2)
		// the DLQ connector itself fails (its plugin dies) instead of rejecting a record
		both(flowParams{Sources: 1, Records: 3, Batch: 1, Dests: 1, AckMenu: okNack, DLQMenu: []string{"ok", "err"}, Stop: ""}, 2, 3)
		// the first processor filters a record, the second one fails an earlier record of the same batch (retry ranges span
		// the filtered record)
		both(flowParams{Sources: 1, Records: 6, Batch: 6, Dests: 1, AckMenu: onlyOK, Procs: []procParam{{ID: "p1", Kinds: []string{"p", "p", "p", "f", "p", "p"}}, {ID: "p2", Kinds: []string{"p", "E", "p", "p", "p", "p"}}}}, 1, 2)
		both(flowParams{Sources: 1, Records: 5, Batch: 5, Dests: 1, AckMenu: onlyOK, Procs: []procParam{{ID: "p1", Kinds: []string{"p", "p", "f", "p", "p"}}, {ID: "p2", Kinds: []string{"p", "f", "p", "f", "p"}}}}, 1, 2)
		// the DLQ is off (it refuses every rejection and hands the reason back); the reason wraps io.EOF
		both(flowParams{Sources: 1, Records: 3, Batch: 1, Dests: 1, AckMenu: onlyOK, Window: 1, Thresh: 0, Procs: []procParam{{ID: "pp", Kinds: []string{"p", "eoferr", "p"}}}}, 1, 2)
		// a store that is slow for one commit (7s) while later acks arrive: no later flush may overtake it
		both(flowParams{Sources: 1, Records: 3, Batch: 1, Dests: 1, AckMenu: onlyOK, Bundle: 2, CommitDelaysMs: []int{0, 7000}}, 1, 2)
		both(flowParams{Sources: 1, Records: 3, Batch: 1, Dests: 1, AckMenu: onlyOK, CommitDelaysMs: []int{7000, 0, 7000}}, 1, 2)
		// nack window bound to pipeline behaviour: which rejections are dead-lettered and which stop the pipeline
		both(flowParams{Sources: 1, Records: 4, Batch: 1, Dests: 1, AckMenu: []string{"nack", "ok"}, Window: 3, Thresh: 1, Retries: -1}, 2, 3)
		both(flowParams{Sources: 1, Records: 4, Batch: 1, Dests: 1, AckMenu: []string{"nack", "ok"}, Window: 2, Thresh: 1, Retries: -1}, 2, 3)
		// a source plugin that is slow to take acks off its stream while later flushes release more acks
		both(flowParams{Sources: 1, Records: 4, Batch: 1, Dests: 1, AckMenu: onlyOK, Bundle: 2, LateAckRecv: true}, 1, 2)
		both(flowParams{Sources: 1, Records: 4, Batch: 2, Dests: 1, AckMenu: onlyOK, LateCommit: true, LateAckRecv: true}, 1, 2)
		// two chained processors, the first leaves a hole of adjacent filtered / dead-lettered records inside one batch
		both(flowParams{Sources: 1, Records: 6, Batch: 6, Dests: 1, AckMenu: onlyOK, Procs: []procParam{{ID: "p1", Kinds: []string{"p", "f", "f", "p", "p", "p"}}, {ID: "p2"}}}, 1, 2)
		both(flowParams{Sources: 1, Records: 6, Batch: 6, Dests: 2, AckMenu: onlyOK, Procs: []procParam{{ID: "p1", Kinds: []string{"p", "e", "e", "p", "f", "p"}}, {ID: "p2", Kinds: []string{"p", "p", "p", "f", "p", "p"}}}}, 1, 2)
		// the second processor rejects the records on both sides of one the first processor filtered (its error indices are
		// adjacent in ITS input, not in the batch)
		both(flowParams{Sources: 1, Records: 4, Batch: 4, Dests: 1, AckMenu: onlyOK, Procs: []procParam{{ID: "p1", Kinds: []string{"p", "f", "p", "p"}}, {ID: "p2", Kinds: []string{"e", "p", "e", "p"}}}}, 1, 2)
		// a processor with a condition answers short: records that do not match lie behind the first unanswered matching one
		both(flowParams{Sources: 1, Records: 5, Batch: 5, Dests: 1, AckMenu: onlyOK, NoMatch: []int{2, 4}, Procs: []procParam{{ID: "pp", Kinds: []string{"p", "s", "p", "p", "p"}, Cond: "match"}}}, 1, 2)
	}
	switch prop {
	case "SMOKE":
		both(flowParams{Sources: 1, Records: 2, Batch: 1, Dests: 2, AckMenu: okNack, Stop: "stopwait"}, 1, 1)
	case "PROC":
		both(flowParams{Sources: 1, Records: 3, Batch: 1, Dests: 1, AckMenu: onlyOK, Procs: []procParam{{ID: "pp", Workers: 2, Gate: true}}}, 2, 3)
		both(flowParams{Sources: 1, Records: 3, Batch: 1, Dests: 2, AckMenu: onlyOK, Procs: []procParam{{ID: "pp", Workers: 1, Kinds: []string{"p", "f", "p"}}}}, 1, 3)
	case "C01", "C02", "C03", "C04", "C05", "C07":
		data()
		if prop == "C01" {
			// a record is split, the second processor answers short for the last piece and splits THAT piece when it is retried
			// (inside the retry sub-batch); the destination confirms record by record and rejects the very last leaf
			v2only := flowParams{Engine: "v2", Sources: 1, Records: 2, Batch: 2, Dests: 1, AckMenu: onlyOK, ChunkAcks: true, Reject: map[string][]string{"d0": {"s0:0:1/2.1/2"}},
				Procs: []procParam{{ID: "pp", Kinds: []string{"2", "p"}}, {ID: "pq", Kinds: []string{"nestretry", "p"}}}}
			out = append(out, scn{v2only, 1, 2})
			// a batching destination that confirms the writes AROUND one it never confirms, in one response: [ack(k-1), ack(k+1)]
			both(flowParams{Sources: 1, Records: 3, Batch: 1, Dests: 1, AckMenu: []string{"ok", "defer", "skip"}, Stop: ""}, 2, 3)
		}
		if prop == "C04" || prop == "C02" {
			// the transport fails transiently while the engine sends an acknowledgment to the source plugin - also during the
			// drain of a graceful stop, when several acknowledgments are released at once: the engine retries, nothing is skipped
			both(flowParams{Sources: 1, Records: 3, Batch: 1, Dests: 1, AckMenu: onlyOK, AckSendFaults: true, Stop: "stopwait"}, 1, 2)
			both(flowParams{Sources: 1, Records: 3, Batch: 1, Dests: 1, AckMenu: onlyOK, AckSendFaults: true, Bundle: 2}, 1, 2)
		}
		if prop == "C02" {
			// a flush fails while a later acknowledgment of the same source is already registered; the pipeline recovers inside
			// the same process (the connector object lives on): what the restart opens with, and what later flushes store
			both(flowParams{Sources: 1, Records: 4, Batch: 1, Dests: 1, AckMenu: onlyOK, Faults: true, Bundle: 2, LateCommit: true, Retries: 2}, 2, 3)
			both(flowParams{Sources: 1, Records: 4, Batch: 1, Dests: 1, AckMenu: onlyOK, Faults: true, Retries: 2}, 2, 3)
		}
		if prop == "C04" {
			// (C04 only: its oracle speaks of source acks and positions; the piece bookkeeping of the other properties'
			// oracles knows one level of splitting)
			// a record is split and one of its pieces is split again by a later processor (split, then clone): the original is
			// acknowledged once all leaves are through, the records behind it afterwards
			both(flowParams{Sources: 1, Records: 3, Batch: 3, Dests: 1, AckMenu: onlyOK, Procs: []procParam{{ID: "pp", Kinds: []string{"p", "2", "p"}}, {ID: "pq", Kinds: []string{"p", "2", "p"}}}}, 1, 2)
			both(flowParams{Sources: 1, Records: 2, Batch: 1, Dests: 2, AckMenu: onlyOK, Procs: []procParam{{ID: "pp", Parent: "d1", Kinds: []string{"2", "p"}}, {ID: "pq", Parent: "d1", Kinds: []string{"2", "p"}}}}, 1, 2)
		}
	case "C20":
		// every fatal cause the engines know, each through the different paths an error can take to the lifecycle service
		// (destination acker, processor node, parallel processor node, fan-out siblings): the fatal mark must survive
		// every wrapper on the way, i.e. the pipeline degrades instead of recovering
		both(flowParams{Sources: 1, Records: 2, Batch: 1, Dests: 1, AckMenu: okNack, DLQMenu: okNack, Retries: 1}, 2, 3)
		both(flowParams{Sources: 1, Records: 2, Batch: 1, Dests: 1, AckMenu: okNack, DLQMenu: []string{"ok", "err"}, Retries: 2}, 2, 3)
		both(flowParams{Sources: 1, Records: 3, Batch: 1, Dests: 1, AckMenu: okNack, Window: 2, Thresh: 1, Retries: 1}, 2, 3)
		both(flowParams{Sources: 1, Records: 2, Batch: 1, Dests: 2, AckMenu: okNack, Window: 2, Thresh: 1, Retries: 1}, 2, 3)
		both(flowParams{Sources: 1, Records: 2, Batch: 1, Dests: 2, AckMenu: okNack, DLQMenu: okNack, Retries: 1}, 2, 3)
		both(flowParams{Sources: 1, Records: 2, Batch: 1, Dests: 1, AckMenu: onlyOK, Window: 1, Thresh: 0, Procs: []procParam{{ID: "pp", Kinds: []string{"p", "e"}}}, Retries: 2}, 1, 2)
		both(flowParams{Sources: 1, Records: 2, Batch: 1, Dests: 1, AckMenu: onlyOK, Window: 1, Thresh: 0, Procs: []procParam{{ID: "pp", Workers: 2, Kinds: []string{"p", "e"}}}, Retries: 2}, 1, 2)
		both(flowParams{Sources: 1, Records: 2, Batch: 1, Dests: 1, AckMenu: onlyOK, Window: 2, Thresh: 1, Procs: []procParam{{ID: "pp", Kinds: []string{"e", "e"}}}, Retries: 2}, 1, 2)
	case "C17":
		// a pipeline that runs when the server shuts down gracefully - also when its drain hits a transient error - is
		// stored in the status the next server start resumes (SystemStopped)
		both(flowParams{Sources: 1, Records: 2, Batch: 1, Dests: 1, AckMenu: onlyOK, Stop: "stopall"}, 2, 3)
		both(flowParams{Sources: 1, Records: 2, Batch: 1, Dests: 1, AckMenu: []string{"ok", "err"}, ReadMenu: []string{"ok", "err"}, Stop: "stopall", Retries: 2}, 2, 3)
		both(flowParams{Sources: 2, Records: 1, Batch: 1, Dests: 2, AckMenu: []string{"ok", "err"}, Stop: "stopall", Retries: 1}, 1, 2)
	case "C12":
		for _, blocked := range [][]string{nil, {"d1"}, {"dlq"}, {"d0", "d1"}} {
			both(flowParams{Sources: 1, Records: 2, Batch: 1, Dests: 2, AckMenu: okNack, Stop: "force", Blocked: blocked}, 2, 3)
		}
		// a graceful stop is accepted but cannot drain (a destination never confirms), then the force stop: failed by force stop
		both(flowParams{Sources: 1, Records: 2, Batch: 1, Dests: 1, AckMenu: onlyOK, Stop: "force", GracefulFirst: true, Blocked: []string{"d0"}}, 2, 3)
		both(flowParams{Sources: 1, Records: 2, Batch: 1, Dests: 1, AckMenu: onlyOK, Stop: "force", GracefulFirst: true}, 2, 3)
		both(flowParams{Sources: 1, Records: 3, Batch: 1, Dests: 1, AckMenu: onlyOK, Stop: "force", Restart: true}, 2, 3)
		both(flowParams{Sources: 2, Records: 2, Batch: 2, Dests: 1, AckMenu: onlyOK, Stop: "force", Restart: true}, 1, 2)
		both(flowParams{Sources: 1, Records: 3, Batch: 1, Dests: 1, AckMenu: onlyOK, Stop: "force", Restart: true, Procs: []procParam{{ID: "pp", Gate: true}}}, 2, 3)
		both(flowParams{Sources: 1, Records: 2, Batch: 1, Dests: 2, AckMenu: onlyOK, GateDestOpen: true, Stop: "force"}, 2, 3)
		// the DLQ is still opening (unresponsive) while a record is already being rejected, then the force stop arrives
		both(flowParams{Sources: 1, Records: 1, Batch: 1, Dests: 1, AckMenu: okNack, GateDLQOpen: true, Stop: "force"}, 3, 4)
		both(flowParams{Sources: 1, Records: 2, Batch: 1, Dests: 2, AckMenu: okNack, GateDLQOpen: true, Stop: "force"}, 2, 3)
		// a filtered record parked in the fan-out (the destination is still opening) when the force stop arrives
		both(flowParams{Sources: 1, Records: 2, Batch: 1, Dests: 1, AckMenu: onlyOK, GateDestOpen: true, Blocked: []string{"d0"}, Procs: []procParam{{ID: "pp", Kinds: []string{"p", "f"}}}, Stop: "force"}, 2, 3)
		both(flowParams{Sources: 1, Records: 3, Batch: 1, Dests: 2, AckMenu: onlyOK, GateDestOpen: true, Blocked: []string{"d1"}, Procs: []procParam{{ID: "pp", Kinds: []string{"p", "f", "f"}}}, Stop: "force"}, 2, 3)
		// one ack response rejecting a record and confirming the next one, the DLQ write of the first still in flight
		both(flowParams{Sources: 1, Records: 2, Batch: 1, Dests: 1, AckMenu: []string{"ok", "defernack"}, Stop: "force", Blocked: []string{"dlq"}}, 2, 3)
		both(flowParams{Sources: 1, Records: 2, Batch: 2, Dests: 1, AckMenu: []string{"ok", "n:10"}, Stop: "force", Blocked: []string{"dlq"}}, 2, 3)
	case "C09":
		shapes := []string{"ok", "wrongpos", "extra", "none", "reorder", "dup", "err", "nack", "empty", "chunkextra"}
		both(flowParams{Sources: 1, Records: 2, Batch: 2, Dests: 1, AckMenu: shapes, Stop: "force"}, 2, 3)
		both(flowParams{Sources: 1, Records: 2, Batch: 1, Dests: 2, AckMenu: shapes, Stop: "force"}, 1, 2)
		both(flowParams{Sources: 1, Records: 3, Batch: 1, Dests: 1, AckMenu: []string{"ok", "defer", "skip"}, Stop: "force"}, 2, 3)
		both(flowParams{Sources: 1, Records: 2, Batch: 1, Dests: 1, AckMenu: onlyOK, DLQMenu: shapes, Procs: []procParam{{ID: "pp", Kinds: []string{"e", "e"}}}, Stop: "force"}, 2, 3)
		for _, kinds := range [][]string{{"short", "p", "p"}, {"p", "nil", "p"}, {"p", "posrewrite", "p"}, {"extra", "p", "p"}, {"p", "p", "short"}, {"2", "short", "p"}, {"emptypos", "p", "p"},
			{"f", "short", "p"}, {"f", "f", "short"}, {"multi1pos", "p", "p"}, {"p", "multi0", "p"}, {"2", "e", "short"}} {
			both(flowParams{Sources: 1, Records: 3, Batch: 3, Dests: 1, AckMenu: okNack, Procs: []procParam{{ID: "pp", Kinds: kinds}}, Stop: "force"}, 1, 2)
			both(flowParams{Sources: 1, Records: 3, Batch: 3, Dests: 1, AckMenu: onlyOK, NoMatch: []int{1}, Procs: []procParam{{ID: "pp", Kinds: kinds, Cond: "match"}}, Stop: "force"}, 1, 2)
		}
		both(flowParams{Sources: 1, Records: 3, Batch: 3, Dests: 1, AckMenu: onlyOK, SrcPositions: "dup", Stop: "force"}, 1, 2)
		both(flowParams{Sources: 1, Records: 3, Batch: 3, Dests: 1, AckMenu: okNack, SrcPositions: "empty", Stop: "force"}, 1, 2)
		both(flowParams{Sources: 1, Records: 2, Batch: 1, Dests: 1, AckMenu: onlyOK, ReadMenu: []string{"ok", "err", "fatal"}, Stop: "force"}, 2, 3)
		// a minimal record (position and key only: no metadata, no payload), delivered / rejected / dead-lettered / processed
		both(flowParams{Sources: 1, Records: 3, Batch: 3, Dests: 1, AckMenu: okNack, SrcPositions: "bare", Stop: "force"}, 1, 2)
		both(flowParams{Sources: 1, Records: 3, Batch: 1, Dests: 2, AckMenu: okNack, SrcPositions: "bare", Procs: []procParam{{ID: "pp", Kinds: []string{"p", "e", "p"}}}, Stop: "force"}, 1, 2)
		// an error record without an error, under a DLQ that takes everything / takes some / is off (the default)
		for _, w := range [][2]int{{0, 0}, {2, 1}, {1, 0}} {
			both(flowParams{Sources: 1, Records: 3, Batch: 3, Dests: 1, AckMenu: onlyOK, Window: w[0], Thresh: w[1], Procs: []procParam{{ID: "pp", Kinds: []string{"p", "nilerr", "p"}}}, Stop: "force"}, 1, 2)
		}
	case "C10":
		for _, retries := range []int{-1, 1, 2} {
			both(flowParams{Sources: 1, Records: 2, Batch: 1, Dests: 1, AckMenu: []string{"ok", "err"}, ReadMenu: []string{"ok", "err", "fatal"}, Retries: retries}, 2, 3)
		}
		both(flowParams{Sources: 1, Records: 2, Batch: 1, Dests: 1, AckMenu: okNack, DLQMenu: okNack, Retries: 1}, 2, 3)
		// a processor error with a nack window that tolerates nothing: not absorbed by the DLQ, fatal
		both(flowParams{Sources: 1, Records: 2, Batch: 1, Dests: 1, AckMenu: onlyOK, Window: 1, Thresh: 0, Procs: []procParam{{ID: "pp", Kinds: []string{"p", "e"}}}, Retries: 2}, 1, 2)
		both(flowParams{Sources: 1, Records: 3, Batch: 3, Dests: 1, AckMenu: onlyOK, Window: 1, Thresh: 0, Procs: []procParam{{ID: "pp", Kinds: []string{"p", "e", "p"}}}, Retries: 2}, 1, 2)
		// ... the same with a processor that runs two workers (v1 wraps it in a parallel node)
		both(flowParams{Sources: 1, Records: 2, Batch: 1, Dests: 1, AckMenu: onlyOK, Window: 1, Thresh: 0, Procs: []procParam{{ID: "pp", Workers: 2, Kinds: []string{"p", "e"}}}, Retries: 2}, 1, 2)
		// ... the processor sits on ONE destination branch of a fan-out and rejects a record in the middle of a batch
		both(flowParams{Sources: 1, Records: 3, Batch: 3, Dests: 2, AckMenu: onlyOK, Window: 1, Thresh: 0, Procs: []procParam{{ID: "dp", Parent: "d1", Kinds: []string{"p", "e", "p"}}}, Retries: 2}, 2, 3)
		// two processors on one destination branch of a fan-out, the SECOND one rejects a record in the middle of a batch
		both(flowParams{Sources: 1, Records: 3, Batch: 3, Dests: 2, AckMenu: onlyOK, Window: 1, Thresh: 0, Procs: []procParam{{ID: "dp1", Parent: "d1"}, {ID: "dp2", Parent: "d1", Kinds: []string{"p", "e", "p"}}}, Retries: 2}, 2, 3)
		// a second stop request (or the shutdown) arrives while the first one still drains, then the drain fails transiently
		both(flowParams{Sources: 1, Records: 1, Batch: 1, Dests: 1, AckMenu: []string{"ok", "err"}, Ctl: []string{"stop", "stop", "wait"}, Retries: 2}, 3, 3)
		both(flowParams{Sources: 1, Records: 1, Batch: 1, Dests: 1, AckMenu: []string{"ok", "err"}, Ctl: []string{"stop", "stopall", "wait"}, Retries: 2}, 3, 3)
		// a processor that never returns a result for one record: the retries do not converge, fatal
		both(flowParams{Sources: 1, Records: 2, Batch: 2, Dests: 1, AckMenu: onlyOK, Procs: []procParam{{ID: "pp", Kinds: []string{"p", "short"}}}, Retries: 2}, 1, 2)
		both(flowParams{Sources: 1, Records: 2, Batch: 1, Dests: 1, AckMenu: onlyOK, Procs: []procParam{{ID: "pp", Kinds: []string{"short", "p"}}}, Retries: 2}, 1, 2)
		// the DLQ connector itself fails while a rejected record is written to it: a DLQ write failure, fatal
		both(flowParams{Sources: 1, Records: 2, Batch: 1, Dests: 1, AckMenu: okNack, DLQMenu: []string{"ok", "err"}, Retries: 2}, 2, 3)
		both(flowParams{Sources: 1, Records: 3, Batch: 1, Dests: 1, AckMenu: okNack, Window: 2, Thresh: 1, Retries: 1}, 2, 3)
		both(flowParams{Sources: 1, Records: 2, Batch: 1, Dests: 1, AckMenu: []string{"ok", "err"}, ReadMenu: []string{"ok", "err", "fatal"}, Stop: "stopwait", Retries: 2}, 2, 3)
		both(flowParams{Sources: 1, Records: 2, Batch: 1, Dests: 1, AckMenu: []string{"ok", "err", "nack"}, DLQMenu: okNack, ReadMenu: []string{"ok", "err", "fatal"}, Stop: "stopall", Retries: 2}, 2, 3)
		both(flowParams{Sources: 1, Records: 2, Batch: 1, Dests: 1, AckMenu: onlyOK, Stop: "stopall"}, 2, 3)
		// a fatal failure (rejected DLQ write) arriving while the server is shutting down / the user is stopping
		both(flowParams{Sources: 1, Records: 2, Batch: 1, Dests: 1, AckMenu: []string{"nack", "ok"}, DLQMenu: []string{"nack", "ok"}, Stop: "stopall", Retries: 1}, 2, 3)
		both(flowParams{Sources: 1, Records: 2, Batch: 1, Dests: 1, AckMenu: []string{"nack", "ok"}, DLQMenu: []string{"nack", "ok"}, Stop: "stopwait", Retries: 1}, 2, 3)
		both(flowParams{Sources: 1, Records: 2, Batch: 1, Dests: 1, AckMenu: onlyOK, Stop: "stopwait"}, 2, 3)
		both(flowParams{Sources: 1, Records: 2, Batch: 1, Dests: 2, AckMenu: []string{"ok", "err"}, Stop: "force", Retries: 1}, 1, 2)
		// a long scripted history: failure, a user start inside the back-off, a quiet period longer than the retry window,
		// then failures in a row - the retry budget of the window must not have grown
		both(flowParams{Sources: 1, Records: 5, Batch: 1, Dests: 1, AckScript: []string{"err", "ok", "err", "err", "err", "err"}, IdleBatches: []int{2}, Ctl: []string{"start"}, Retries: 1}, 1, 2)
		both(flowParams{Sources: 1, Records: 6, Batch: 1, Dests: 1, AckScript: []string{"err", "ok", "err", "err", "err", "err", "err"}, IdleBatches: []int{2}, Ctl: []string{"start"}, Retries: 2}, 0, 1)
		// isolated transient failures, each followed by a quiet period longer than the retry window: every one of them is
		// the only attempt in its window and must be recovered from, however many there have been before
		both(flowParams{Sources: 1, Records: 6, Batch: 1, Dests: 1, AckScript: []string{"err", "ok", "err", "ok", "err", "ok", "err", "ok", "err", "ok", "err", "ok"}, IdleBatches: []int{1, 2, 3, 4, 5}, Retries: 2}, 0, 1)
	case "C11":
		hist := [][]string{
			{"stop", "start", "stopwait"},
			{"stop", "wait", "start", "stopwait"},
			{"stopwait", "start", "stop", "wait"},
			{"stop", "start", "stop", "start"},
			{"stopall", "start", "stopwait"},
			{"force", "wait", "start", "stopwait"},
			{"start", "stop", "stop", "wait"},
		}
		for _, h := range hist {
			both(flowParams{Sources: 1, Records: 2, Batch: 1, Dests: 1, AckMenu: onlyOK, Ctl: h}, 2, 3)
		}
		both(flowParams{Sources: 1, Records: 2, Batch: 1, Dests: 1, AckMenu: []string{"ok", "err"}, ReadMenu: []string{"ok", "err"}, Ctl: []string{"stop", "wait", "start", "stopwait"}, Retries: 1}, 2, 3)
		both(flowParams{Sources: 1, Records: 2, Batch: 1, Dests: 1, AckMenu: []string{"ok", "err"}, Ctl: []string{"stopwait", "start", "stopwait"}, Retries: 2}, 2, 3)
		both(flowParams{Sources: 1, Records: 1, Batch: 1, Dests: 2, AckMenu: onlyOK, GateDestOpen: true, Ctl: []string{"stop", "start", "stopwait"}, Retries: 1}, 2, 3)
		// the store refuses a status write (e.g. the write of "running" at the end of Start)
		both(flowParams{Sources: 1, Records: 1, Batch: 1, Dests: 1, AckMenu: onlyOK, Faults: true, Ctl: []string{"stopwait", "start", "stopwait"}}, 2, 3)
		// ... the history ends with a Start whose own status write may be refused: a Start that reports failure leaves nothing running
		both(flowParams{Sources: 1, Records: 1, Batch: 1, Dests: 1, AckMenu: onlyOK, Faults: true, Ctl: []string{"stopwait", "start"}}, 1, 2)
		// ... and a Start is repeated after one whose own status write was refused
		both(flowParams{Sources: 1, Records: 1, Batch: 1, Dests: 1, AckMenu: onlyOK, Faults: true, Ctl: []string{"stopwait", "start", "start", "stopwait"}}, 1, 2)
		// the first Start cannot build its nodes (a plugin cannot be dispensed): nothing may stay reserved, the next Start works
		both(flowParams{Sources: 1, Records: 1, Batch: 1, Dests: 1, AckMenu: onlyOK, Procs: []procParam{{ID: "pp"}}, FailDispense: []string{"d0"}, Ctl: []string{"start", "stopwait"}}, 1, 2)
		both(flowParams{Sources: 1, Records: 1, Batch: 1, Dests: 1, AckMenu: onlyOK, Procs: []procParam{{ID: "pp"}}, FailDispense: []string{"s0"}, Ctl: []string{"start", "stopwait"}}, 1, 2)
		// two sources, the second one cannot be opened at the first Start: everything the failed Start opened must be
		// released, the next Start works
		both(flowParams{Sources: 2, Records: 1, Batch: 1, Dests: 1, AckMenu: onlyOK, GateSrcOpen: []string{"s1"}, Ctl: []string{"start", "stopwait"}}, 1, 2)
		// the first Start fails AFTER a source was opened (the DLQ connector, a destination behind processors, or a
		// source-side processor cannot be opened): everything it opened or reserved is released, the next Start works
		both(flowParams{Sources: 1, Records: 1, Batch: 1, Dests: 1, AckMenu: onlyOK, GateDLQOpen: true, Ctl: []string{"start", "stopwait"}}, 1, 2)
		both(flowParams{Sources: 1, Records: 1, Batch: 1, Dests: 1, AckMenu: onlyOK, GateDestOpen: true, Procs: []procParam{{ID: "pp"}}, Ctl: []string{"start", "stopwait"}}, 1, 2)
		both(flowParams{Sources: 1, Records: 1, Batch: 1, Dests: 1, AckMenu: onlyOK, Procs: []procParam{{ID: "pp", Parent: "s0"}}, ProcOpenMenu: []string{"ok", "err"}, Ctl: []string{"start", "stopwait"}}, 1, 2)
		// a slow status store: the write of "running" is still in flight while the run already fails and ends
		both(flowParams{Sources: 1, Records: 1, Batch: 1, Dests: 1, AckMenu: onlyOK, ReadMenu: []string{"ok", "err", "fatal"}, LatePut: true, Ctl: []string{"wait"}, Retries: -1}, 2, 3)
		both(flowParams{Sources: 1, Records: 1, Batch: 1, Dests: 1, AckMenu: []string{"ok", "err"}, LatePut: true, Ctl: []string{"wait", "start"}, Retries: 1}, 2, 3)
	case "C13":
		v1 := func(p flowParams, q, t int) { p.Engine = "v1"; out = append(out, scn{p, q, t}) }
		pp := []procParam{{ID: "pp"}}
		v1(flowParams{Sources: 1, Records: 3, Batch: 1, Dests: 1, AckMenu: onlyOK, Procs: pp, Reconf: []string{"A"}, ProcOpenMenu: []string{"ok", "err"}}, 2, 4)
		v1(flowParams{Sources: 1, Records: 3, Batch: 1, Dests: 2, AckMenu: onlyOK, Procs: pp, Reconf: []string{"A"}, ProcOpenMenu: []string{"ok"}, Stop: "stopwait"}, 2, 3)
		v1(flowParams{Sources: 1, Records: 3, Batch: 1, Dests: 1, AckMenu: onlyOK, Procs: pp, Reconf: []string{"A", "B"}, ProcOpenMenu: []string{"ok", "err"}}, 2, 3)
		// the reconfigured processor is attached to a connector (source side / destination side of a fan-out)
		v1(flowParams{Sources: 1, Records: 3, Batch: 1, Dests: 2, AckMenu: onlyOK, Procs: []procParam{{ID: "pp", Parent: "d1"}}, Reconf: []string{"A"}, ProcOpenMenu: []string{"ok", "err"}}, 2, 3)
		v1(flowParams{Sources: 2, Records: 2, Batch: 1, Dests: 1, AckMenu: onlyOK, Procs: []procParam{{ID: "pp", Parent: "s0"}}, Reconf: []string{"A"}, ProcOpenMenu: []string{"ok", "err"}}, 1, 2)
		// the new processor takes a minute to open (slow but responding): whatever the caller is told must be what happened
		v1(flowParams{Sources: 1, Records: 3, Batch: 1, Dests: 1, AckMenu: onlyOK, Procs: pp, Reconf: []string{"A"}, ProcOpenMenu: []string{"ok", "slow"}}, 2, 3)
		v1(flowParams{Sources: 1, Records: 3, Batch: 1, Dests: 1, AckMenu: onlyOK, Procs: pp, Apply: []string{"proc"}, ProcOpenMenu: []string{"ok", "slow"}}, 2, 3)
		v1(flowParams{Sources: 1, Records: 2, Batch: 1, Dests: 1, AckMenu: onlyOK, Procs: pp, Reconf: []string{"A", "B", "cancelA"}, ProcOpenMenu: []string{"ok"}}, 3, 4)
		v1(flowParams{Sources: 1, Records: 2, Batch: 1, Dests: 1, AckMenu: onlyOK, Procs: pp, Reconf: []string{"A", "cancelA"}, ProcOpenMenu: []string{"ok", "err"}}, 2, 4)
		v1(flowParams{Sources: 1, Records: 3, Batch: 1, Dests: 1, AckMenu: okNack, Procs: []procParam{{ID: "pp", Gate: true}}, Reconf: []string{"A"}, ProcOpenMenu: []string{"ok"}}, 2, 3)
		// a provisioning apply that changes two processors in place, the second one's new configuration cannot be opened:
		// the first one must be back on its previous configuration afterwards
		v1(flowParams{Sources: 1, Records: 3, Batch: 1, Dests: 1, AckMenu: onlyOK, Procs: []procParam{{ID: "pp"}, {ID: "pq"}}, Apply: []string{"twoprocs"}, ProcOpenMenu: []string{"ok", "err"}}, 2, 3)
		// the processor that is swapped OUT reports an error from its Teardown: the new one is live, the request succeeded
		v1(flowParams{Sources: 1, Records: 3, Batch: 1, Dests: 1, AckMenu: onlyOK, Procs: pp, Reconf: []string{"A"}, ProcOpenMenu: []string{"ok"}, ProcTeardownErr: true}, 2, 3)
		v1(flowParams{Sources: 1, Records: 3, Batch: 1, Dests: 1, AckMenu: onlyOK, Procs: []procParam{{ID: "pp"}, {ID: "pq"}}, Apply: []string{"twoprocs"}, ProcOpenMenu: []string{"ok"}, ProcTeardownErr: true}, 2, 3)
		// a processor-only edit whose new configuration cannot even be built (its plugin cannot be dispensed): the old one keeps
		// running, nothing of the edit stays stored
		v1(flowParams{Sources: 1, Records: 3, Batch: 1, Dests: 1, AckMenu: onlyOK, Procs: pp, Apply: []string{"procbad"}, ProcOpenMenu: []string{"ok"}}, 2, 3)
		// the run is force-stopped (or fails) while the new processor is still inside Open, which then succeeds or fails
		v1(flowParams{Sources: 1, Records: 2, Batch: 1, Dests: 1, AckMenu: onlyOK, Procs: pp, Reconf: []string{"A"}, ProcOpenMenu: []string{"ok", "err"}, Stop: "force"}, 2, 3)
		v1(flowParams{Sources: 1, Records: 2, Batch: 1, Dests: 1, AckMenu: []string{"ok", "err"}, Procs: pp, Reconf: []string{"A"}, ProcOpenMenu: []string{"ok", "err"}}, 2, 3)
	case "C16":
		pp := []procParam{{ID: "pp"}}
		two := []procParam{{ID: "pp"}, {ID: "pq"}}
		v1 := func(p flowParams, q, t int) { p.Engine = "v1"; out = append(out, scn{p, q, t}) }
		v1(flowParams{Sources: 1, Records: 3, Batch: 1, Dests: 1, AckMenu: onlyOK, Procs: pp, Apply: []string{"proc"}, ProcOpenMenu: []string{"ok", "err"}}, 2, 3)
		v1(flowParams{Sources: 1, Records: 3, Batch: 1, Dests: 1, AckMenu: onlyOK, Procs: two, Apply: []string{"twoprocs"}, ProcOpenMenu: []string{"ok", "err"}}, 2, 3)
		both(flowParams{Sources: 1, Records: 3, Batch: 1, Dests: 1, AckMenu: onlyOK, Procs: pp, Apply: []string{"conn"}}, 2, 3)
		both(flowParams{Sources: 1, Records: 3, Batch: 1, Dests: 2, AckMenu: onlyOK, Procs: pp, Apply: []string{"addproc"}}, 1, 2)
		both(flowParams{Sources: 1, Records: 2, Batch: 1, Dests: 1, AckMenu: onlyOK, Procs: pp, Apply: []string{"proc+stale"}}, 2, 3)
		both(flowParams{Sources: 1, Records: 2, Batch: 1, Dests: 1, AckMenu: onlyOK, Procs: pp, Apply: []string{"conn+noauth"}}, 2, 3)
		both(flowParams{Sources: 1, Records: 2, Batch: 1, Dests: 1, AckMenu: onlyOK, Procs: pp, Apply: []string{"proc", "||conn"}}, 2, 3)
		v1(flowParams{Sources: 1, Records: 3, Batch: 1, Dests: 1, AckMenu: onlyOK, Procs: pp, Apply: []string{"procbad"}, ProcOpenMenu: []string{"ok"}}, 2, 3)
		// only the nack threshold of the dead-letter queue changes: not a processor-only change, the pipeline is drained and restarted
		both(flowParams{Sources: 1, Records: 3, Batch: 1, Dests: 1, AckMenu: onlyOK, Window: 3, Thresh: 1, Procs: pp, Apply: []string{"dlqthresh"}}, 2, 3)
		// the state changes between plan and apply in ANOTHER field of the very processor the plan updates
		both(flowParams{Sources: 1, Records: 2, Batch: 1, Dests: 1, AckMenu: onlyOK, Procs: pp, Apply: []string{"proc+stale2"}}, 1, 2)
		// a restart-class apply whose restart fails (the second source cannot be opened): cleanly stopped, and it can be
		// started again
		both(flowParams{Sources: 2, Records: 2, Batch: 1, Dests: 1, AckMenu: onlyOK, Procs: pp, Apply: []string{"conn"}, GateSrcOpen: []string{"s1"}, Ctl: []string{"start", "stopwait"}}, 1, 2)
		// three overlapping applies to the same pipeline: the second queues behind the first, the third arrives while the
		// second is inside
		both(flowParams{Sources: 1, Records: 2, Batch: 1, Dests: 1, AckMenu: onlyOK, Procs: pp, Apply: []string{"conn", "||proc", "||addproc"}}, 1, 2)
		// two applies that change the SAME field, planned against the same state
		both(flowParams{Sources: 1, Records: 2, Batch: 1, Dests: 1, AckMenu: onlyOK, Procs: pp, Apply: []string{"conn", "||conn"}}, 1, 2)
		// an unauthorised apply arriving while the pipeline waits for its recovery restart
		both(flowParams{Sources: 1, Records: 2, Batch: 1, Dests: 1, AckMenu: []string{"ok", "err"}, Procs: pp, Apply: []string{"conn+noauth"}, Retries: 1}, 2, 3)
		// a restart-class apply is draining the pipeline while a second, in-place apply is planned and submitted
		both(flowParams{Sources: 1, Records: 2, Batch: 1, Dests: 1, AckMenu: onlyOK, Procs: pp, Apply: []string{"conn", "||proc"}}, 2, 3)
		both(flowParams{Sources: 1, Records: 2, Batch: 1, Dests: 1, AckMenu: onlyOK, Procs: pp, Apply: []string{"conn", "proc"}, Stop: "stopwait"}, 1, 2)
	case "C06":
		both(flowParams{Sources: 1, Records: 3, Batch: 1, Dests: 1, AckMenu: onlyOK, Stop: "stopwait"}, 2, 4)
		both(flowParams{Sources: 1, Records: 2, Batch: 1, Dests: 2, AckMenu: onlyOK, Stop: "stopwait"}, 2, 3)
		both(flowParams{Sources: 2, Records: 2, Batch: 1, Dests: 1, AckMenu: onlyOK, Stop: "stopwait"}, 1, 2)
		both(flowParams{Sources: 1, Records: 3, Batch: 2, Dests: 1, AckMenu: onlyOK, Stop: "stop+wait"}, 2, 3)
		both(flowParams{Sources: 1, Records: 3, Batch: 1, Dests: 1, AckMenu: []string{"ok", "defer"}, Stop: "stopwait"}, 2, 4)
		both(flowParams{Sources: 1, Records: 3, Batch: 1, Dests: 1, AckMenu: onlyOK, Stop: "stopwait", Procs: []procParam{{ID: "pp", Workers: 1, Gate: true, Kinds: []string{"p", "f", "p"}}}}, 2, 3)
		both(flowParams{Sources: 1, Records: 3, Batch: 1, Dests: 1, AckMenu: onlyOK, Stop: "stopwait", Bundle: 2}, 2, 3)
		// a store that needs 2.5s per commit (slow, but responding) while the pipeline is stopped gracefully
		both(flowParams{Sources: 1, Records: 2, Batch: 1, Dests: 1, AckMenu: onlyOK, Stop: "stopwait", Bundle: 1, CommitDelaysMs: []int{0, 2500, 2500, 2500, 2500}}, 1, 2)
		both(flowParams{Sources: 1, Records: 3, Batch: 1, Dests: 1, AckMenu: onlyOK, Stop: "stopwait", CommitDelaysMs: []int{0, 2500, 2500, 2500, 2500}}, 1, 2)
		// the store refuses position flushes (twice in a row at bound 2) and the pipeline is then stopped gracefully:
		// the stop must still complete
		both(flowParams{Sources: 1, Records: 3, Batch: 1, Dests: 1, AckMenu: onlyOK, Stop: "stopwait", Faults: true, Bundle: 1}, 2, 3)
		// system shutdown after the store refused position flushes: StopAll, Wait and the persister's own Wait (the
		// runtime's sequence) must all return
		both(flowParams{Sources: 1, Records: 3, Batch: 1, Dests: 1, AckMenu: onlyOK, Stop: "stopall", Faults: true, Bundle: 1}, 2, 3)
		// system shutdown: StopAll (a graceful stop that carries a reason) followed by Wait
		both(flowParams{Sources: 1, Records: 3, Batch: 1, Dests: 1, AckMenu: onlyOK, Stop: "stopall"}, 2, 3)
		both(flowParams{Sources: 1, Records: 2, Batch: 1, Dests: 2, AckMenu: []string{"ok", "defer"}, Stop: "stopall"}, 2, 3)
	}
	return out
}

// preemptScenariosFor lists the scenarios of the preemptive tier (bound = deviations explored around each preemption).
func preemptScenariosFor(prop string) []scn {
	var out []scn
	v1 := func(p flowParams, q, t int) { p.Engine = "v1"; out = append(out, scn{p, q, t}) }
	v2 := func(p flowParams, q, t int) { p.Engine = "v2"; out = append(out, scn{p, q, t}) }
	// two per-source workers of the funnel engine converge on the shared destination branch(es): a worker preempted
	// anywhere between its read and its acks while the other one runs
	v2workers := func() {
		pts := []string{"worker.go", "destination.go", "source.go"}
		v2(flowParams{Sources: 2, Records: 2, Batch: 1, Dests: 1, AckMenu: onlyOK, Stop: "", MaxOcc: 3, PointOnly: pts}, 0, 1)
		v2(flowParams{Sources: 2, Records: 2, Batch: 2, Dests: 2, AckMenu: onlyOK, Stop: "", MaxOcc: 2, PointOnly: pts}, 0, 1)
		// ... and the destination rejects one of the records: the rejection must land on the right source's record
		v2(flowParams{Sources: 2, Records: 1, Batch: 1, Dests: 1, AckMenu: okNack, Stop: "", MaxOcc: 2, PointOnly: pts}, 1, 2)
	}
	switch prop {
	case "C16":
		// three overlapping applies to one pipeline, with the goroutine of one of them parked inside the per-pipeline lock
		// or the apply itself: at most one apply is ever inside
		both3 := []procParam{{ID: "pp"}}
		v1(flowParams{Sources: 1, Records: 1, Batch: 1, Dests: 1, AckMenu: onlyOK, Procs: both3, Apply: []string{"conn", "||proc", "||addproc"}, MaxOcc: 3}, 0, 1)
	case "C07":
		// two sources have a record rejected at about the same time: their dead-letter writes share one DLQ connector
		// (v1) whose write / confirmation pairs must not cross
		// (the rejections come from per-source processors, which run on their own goroutines; a single destination would
		// hand them over one after the other)
		perSrc := []procParam{{ID: "pa", Parent: "s0", Kinds: []string{"e"}}, {ID: "pb", Parent: "s1", Kinds: []string{"e"}}}
		v1(flowParams{Sources: 2, Records: 1, Batch: 1, Dests: 1, AckMenu: onlyOK, Procs: perSrc, MaxOcc: 3}, 1, 2)
		v2(flowParams{Sources: 2, Records: 1, Batch: 1, Dests: 1, AckMenu: onlyOK, Procs: perSrc, MaxOcc: 3}, 1, 2)
	case "C12":
		// the force stop lands while a node goroutine of the run is parked between two of its own statements
		v1(flowParams{Sources: 1, Records: 2, Batch: 1, Dests: 1, AckMenu: []string{"ok", "defer"}, Stop: "force"}, 1, 2)
		v2(flowParams{Sources: 1, Records: 2, Batch: 1, Dests: 1, AckMenu: []string{"ok", "defer"}, Stop: "force"}, 1, 2)
		v1(flowParams{Sources: 1, Records: 2, Batch: 1, Dests: 2, AckMenu: okNack, Stop: "force", MaxOcc: 1}, 0, 1)
	case "C09":
		// a destination that confirms several writes in ONE response, with the engine's own goroutines preempted between the
		// write and the hand-over to the acker: a legal reply shape whose effect depends on the interleaving
		v1(flowParams{Sources: 1, Records: 2, Batch: 1, Dests: 1, AckMenu: []string{"ok", "defer"}, Stop: "stopwait"}, 1, 2)
		v2(flowParams{Sources: 1, Records: 2, Batch: 1, Dests: 1, AckMenu: []string{"ok", "defer"}, Stop: "stopwait"}, 1, 2)
		// parallel workers of ONE processor evaluate its condition at the same time (they share the runnable processor)
		v1(flowParams{Sources: 1, Records: 3, Batch: 1, Dests: 1, AckMenu: onlyOK, NoMatch: []int{1}, Procs: []procParam{{ID: "pp", Workers: 2, Cond: "match"}}, PointOnly: []string{"processor_condition.go", "runnable_processor.go"}, MaxOcc: 4}, 0, 1)
	case "C06":
		v1(flowParams{Sources: 1, Records: 2, Batch: 1, Dests: 1, AckMenu: []string{"ok", "defer"}, Stop: "stopwait"}, 1, 2)
		v2(flowParams{Sources: 1, Records: 2, Batch: 1, Dests: 1, AckMenu: []string{"ok", "defer"}, Stop: "stopwait"}, 1, 2)
		// two sources share the persister: the final flush of one connector's teardown and the other connector's writes
		v1(flowParams{Sources: 2, Records: 1, Batch: 1, Dests: 1, AckMenu: onlyOK, Stop: "stopwait", PointOnly: []string{"source.go", "persister.go"}, MaxOcc: 8}, 0, 1)
		v2(flowParams{Sources: 2, Records: 1, Batch: 1, Dests: 1, AckMenu: onlyOK, Stop: "stopwait", PointOnly: []string{"source.go", "persister.go"}, MaxOcc: 8}, 0, 1)
	case "C01", "C04":
		if prop == "C04" {
			// two flushes of one source's acknowledgments confirmed close together: the goroutine handling the first confirmation
			// is held between two of its statements while the second one is handled
			v1(flowParams{Sources: 1, Records: 4, Batch: 1, Dests: 1, AckMenu: onlyOK, Bundle: 2, PointOnly: []string{"source.go"}, MaxOcc: 3}, 0, 1)
			v2(flowParams{Sources: 1, Records: 4, Batch: 1, Dests: 1, AckMenu: onlyOK, Bundle: 2, PointOnly: []string{"source.go"}, MaxOcc: 3}, 0, 1)
		}
		v1(flowParams{Sources: 1, Records: 2, Batch: 1, Dests: 1, AckMenu: []string{"ok", "defer", "nack"}, Stop: ""}, 1, 2)
		if prop == "C04" || verifkit.Thorough() {
			v1(flowParams{Sources: 1, Records: 2, Batch: 1, Dests: 2, AckMenu: okNack, Stop: ""}, 1, 2)
		}
		v2workers()
		if prop == "C01" {
			// a destination that is still opening (its node does not receive) fails while the other destination's
			// confirmation is in flight: the fan-out gives up on the clone it could not hand over
			v1(flowParams{Sources: 1, Records: 1, Batch: 1, Dests: 2, AckMenu: onlyOK, GateDestOpen: true, LateOpen: []string{"d1"}, PointOnly: []string{"fanout.go"}, Stop: ""}, 2, 3)
			if verifkit.Thorough() {
				// ... or the run is force-stopped in that state
				v1(flowParams{Sources: 1, Records: 1, Batch: 1, Dests: 2, AckMenu: onlyOK, GateDestOpen: true, Blocked: []string{"d1"}, Stop: "force"}, 2, 2)
			}
		}
	case "C05":
		v2workers()
	case "C02":
		v1(flowParams{Sources: 1, Records: 2, Batch: 1, Dests: 1, AckMenu: onlyOK, Stop: "stopwait", Bundle: 2}, 1, 2)
		v2(flowParams{Sources: 1, Records: 2, Batch: 1, Dests: 1, AckMenu: onlyOK, Stop: "stopwait", Bundle: 2}, 1, 2)
		// a flush in flight, a later ack in the batch, and the connectors of a force-stopped run racing for the persister
		v1(flowParams{Sources: 1, Records: 3, Batch: 1, Dests: 1, AckMenu: onlyOK, Stop: "force", Bundle: 2, LateCommit: true, PointOnly: []string{"persister.go"}}, 2, 2)
	case "C11":
		v1(flowParams{Sources: 1, Records: 1, Batch: 1, Dests: 1, AckMenu: onlyOK, Ctl: []string{"stop", "start", "stopwait"}}, 1, 2)
		v2(flowParams{Sources: 1, Records: 1, Batch: 1, Dests: 1, AckMenu: onlyOK, Ctl: []string{"stop", "start", "stopwait"}}, 1, 2)
		v1(flowParams{Sources: 1, Records: 1, Batch: 1, Dests: 1, AckMenu: []string{"ok", "err"}, Ctl: []string{"stopwait", "start", "stopwait"}, Retries: 1}, 1, 2)
		// the funnel engine stops the workers of a two-source pipeline concurrently and joins them
		v2(flowParams{Sources: 2, Records: 1, Batch: 1, Dests: 1, AckMenu: onlyOK, Ctl: []string{"stopwait", "start", "stopwait"}, MaxOcc: 2}, 0, 1)
		// a run that fails at once - while the goroutine that called Start is still between two of Start's own statements -
		// and a wait for it afterwards: the wait reports that failure
		v1(flowParams{Sources: 1, Records: 1, Batch: 1, Dests: 1, AckMenu: onlyOK, ReadMenu: []string{"ok", "fatal"}, Ctl: []string{"wait"}, MaxOcc: 1}, 1, 2)
		v2(flowParams{Sources: 1, Records: 1, Batch: 1, Dests: 1, AckMenu: onlyOK, ReadMenu: []string{"ok", "fatal"}, Ctl: []string{"wait"}, MaxOcc: 1}, 1, 2)
	case "C10":
		// the node goroutines of a failing run racing with the run's cleanup goroutine
		v1(flowParams{Sources: 1, Records: 2, Batch: 1, Dests: 1, AckMenu: []string{"ok", "err"}, ReadMenu: []string{"ok", "err", "fatal"}, Retries: 1, SiteWide: true}, 1, 2)
		v2(flowParams{Sources: 1, Records: 2, Batch: 1, Dests: 1, AckMenu: []string{"ok", "err"}, ReadMenu: []string{"ok", "err", "fatal"}, Retries: 1, SiteWide: true}, 1, 2)
	case "C13":
		v1(flowParams{Sources: 1, Records: 2, Batch: 1, Dests: 1, AckMenu: onlyOK, Procs: []procParam{{ID: "pp"}}, Reconf: []string{"A", "B", "cancelA"}, ProcOpenMenu: []string{"ok"}}, 1, 2)
		v1(flowParams{Sources: 1, Records: 2, Batch: 1, Dests: 1, AckMenu: onlyOK, Procs: []procParam{{ID: "pp"}}, Reconf: []string{"A"}, ProcOpenMenu: []string{"ok", "err"}, Stop: "stopwait"}, 1, 2)
	}
	return out
}
