//go:build verif

package verifflow

import "github.com/conduitio/conduit/pkg/verifkit"

type scn struct {
	p      flowParams
	quick  int // deviation bound in the quick tier
	thor   int // deviation bound in the thorough tier
}

func (s scn) bound() int {
	if verifkit.Thorough() {
		return s.thor
	}
	return s.quick
}

var okNack = []string{"ok", "nack"}
var onlyOK = []string{"ok"}

// scenariosFor lists the scenario instances explored for a property (simplest first).
func scenariosFor(prop string) []scn {
	var out []scn
	both := func(p flowParams, q, t int) {
		for _, e := range []string{"v1", "v2"} {
			p.Engine = e
			out = append(out, scn{p, q, t})
		}
	}
	switch prop {
	case "SMOKE":
		both(flowParams{Sources: 1, Records: 2, Batch: 1, Dests: 2, AckMenu: okNack, Stop: "stopwait"}, 1, 1)
	case "PROC":
		both(flowParams{Sources: 1, Records: 3, Batch: 1, Dests: 1, AckMenu: onlyOK, Procs: []procParam{{ID: "pp", Workers: 2, Gate: true}}}, 2, 3)
		both(flowParams{Sources: 1, Records: 3, Batch: 1, Dests: 2, AckMenu: onlyOK, Procs: []procParam{{ID: "pp", Workers: 1, Kinds: []string{"p", "f", "p"}}}}, 1, 3)
	case "C03":
		both(flowParams{Sources: 1, Records: 3, Batch: 1, Dests: 2, AckMenu: okNack, Stop: "stopwait", Bundle: 2}, 1, 3)
		both(flowParams{Sources: 2, Records: 2, Batch: 1, Dests: 1, AckMenu: onlyOK, Stop: "stopwait"}, 1, 2)
		both(flowParams{Sources: 1, Records: 3, Batch: 1, Dests: 1, AckMenu: okNack, Stop: "", Faults: true, Bundle: 2}, 1, 2)
		both(flowParams{Sources: 1, Records: 3, Batch: 2, Dests: 2, AckMenu: onlyOK, Stop: "force"}, 1, 2)
		both(flowParams{Sources: 1, Records: 3, Batch: 1, Dests: 1, AckMenu: onlyOK, Procs: []procParam{{ID: "pp", Kinds: []string{"p", "f", "p"}}}}, 1, 2)
	case "C02":
		both(flowParams{Sources: 1, Records: 3, Batch: 1, Dests: 1, AckMenu: onlyOK, Stop: "stopwait", Faults: true, Bundle: 2}, 2, 3)
		both(flowParams{Sources: 2, Records: 2, Batch: 1, Dests: 1, AckMenu: onlyOK, Stop: "stopwait", Faults: true}, 1, 2)
		both(flowParams{Sources: 1, Records: 3, Batch: 1, Dests: 2, AckMenu: okNack, Stop: "stopwait", Bundle: 2}, 2, 3)
		both(flowParams{Sources: 1, Records: 4, Batch: 2, Dests: 1, AckMenu: onlyOK, Stop: "force", Faults: true, Bundle: 3}, 1, 2)
	case "C01", "C04", "C05":
		both(flowParams{Sources: 1, Records: 2, Batch: 1, Dests: 2, AckMenu: okNack, Stop: "stopwait"}, 2, 3)
		both(flowParams{Sources: 1, Records: 3, Batch: 1, Dests: 2, AckMenu: onlyOK, Stop: "stopwait"}, 2, 4)
		both(flowParams{Sources: 1, Records: 2, Batch: 1, Dests: 3, AckMenu: onlyOK, Stop: ""}, 2, 4)
		both(flowParams{Sources: 2, Records: 2, Batch: 1, Dests: 2, AckMenu: okNack, Stop: "stopwait"}, 1, 2)
		both(flowParams{Sources: 1, Records: 3, Batch: 2, Dests: 2, AckMenu: []string{"ok", "nack", "n:10", "n:01"}, Stop: ""}, 1, 3)
		both(flowParams{Sources: 1, Records: 2, Batch: 1, Dests: 1, AckMenu: okNack, DLQMenu: okNack, Stop: "stopwait"}, 2, 4)
		both(flowParams{Sources: 1, Records: 2, Batch: 1, Dests: 2, AckMenu: okNack, Stop: "force"}, 1, 3)
		both(flowParams{Sources: 1, Records: 2, Batch: 1, Dests: 2, AckMenu: []string{"ok", "err"}, ReadMenu: []string{"ok", "err"}, Stop: ""}, 1, 2)
	}
	return out
}
