//go:build verif

package verifflow

import (
	"fmt"
	"os"
	"sort"
	"strings"
	"testing"

	"github.com/conduitio/conduit/pkg/verifkit"
)

// C07, last clause: "both engines take identical decisions for identical outcome sequences". On the full stack the same
// scripted pipeline (topology, nack window, which records the destination rejects) is run on its default schedule in
// BOTH engines and the decisions are compared: which rejected records were dead-lettered, which records were
// acknowledged to their source, and whether the pipeline stopped.

type parityCase struct {
	Sources, Records int
	Dests            int
	Window, Thresh   int
	Reject           []string // "<src>:<idx>", rejected by destination d0 only
	Split            bool     // a pipeline processor splits every record in two
}

func (c parityCase) String() string {
	return fmt.Sprintf("sources=%d dests=%d split=%v records=%d window=%d/%d reject(d0)=%v", c.Sources, c.Dests, c.Split, c.Records, c.Window, c.Thresh, c.Reject)
}

func (c parityCase) params(engine string) flowParams {
	p := flowParams{Engine: engine, Sources: c.Sources, Records: c.Records, Batch: 1, Dests: c.Dests, AckMenu: onlyOK, Window: c.Window, Thresh: c.Thresh, Retries: -1,
		Reject: map[string][]string{"d0": c.Reject}}
	if c.Split {
		// every record is split in two; "rejecting record i" = the destination rejects its FIRST piece
		kinds := make([]string, c.Records)
		for i := range kinds {
			kinds[i] = "2"
		}
		p.Procs = []procParam{{ID: "pp", Kinds: kinds}}
		var rej []string
		for _, r := range c.Reject {
			rej = append(rej, r+":0/2")
		}
		p.Reject = map[string][]string{"d0": rej}
	}
	return p
}

// decisions summarises what the pipeline decided: which rejected records were tolerated (dead-lettered) and whether the
// pipeline stopped. Source acks are NOT compared: an engine that stops may legitimately drop acks of records it already
// handled (at-least-once), and the funnel engine does.
func decisions(x *verifkit.Exec) string {
	dlq := map[string]bool{}
	final := ""
	for _, e := range x.W.Events() {
		switch {
		case e.Comp == "dlq" && e.Kind == "ack":
			dlq[fmt.Sprintf("%s:%d", strings.SplitN(e.Arg, "|", 2)[0], e.Idx)] = true
		case e.Comp == "end" && e.Kind == "status":
			final = strings.SplitN(e.Arg, "|", 2)[0]
		}
	}
	var keys []string
	for k := range dlq {
		keys = append(keys, k)
	}
	sort.Strings(keys)
	return fmt.Sprintf("dead-lettered=%v stopped=%v", keys, final != "Running")
}

func TestVerifC07EngineParity(t *testing.T) {
	rep := verifkit.NewReport("C07", "engine-parity")
	defer func() {
		if err := rep.Write(); err != nil {
			t.Fatal(err)
		}
		if rep.Violations() > 0 {
			t.Fail()
		}
	}()
	var cases []parityCase
	// every subset of rejected records, single-source and two-source pipelines, a few windows
	for _, topo := range [][4]int{{1, 4, 1, 0}, {2, 2, 1, 0}, {1, 3, 2, 0}} {
		srcs, recs := topo[0], topo[1]
		var units []string
		for s := 0; s < srcs; s++ {
			for i := 0; i < recs; i++ {
				units = append(units, fmt.Sprintf("s%d:%d", s, i))
			}
		}
		for _, w := range [][2]int{{0, 0}, {1, 0}, {2, 1}, {4, 1}, {3, 2}} {
			for mask := 0; mask < 1<<len(units); mask++ {
				var rej []string
				for i, u := range units {
					if mask>>i&1 == 1 {
						rej = append(rej, u)
					}
				}
				cases = append(cases, parityCase{Sources: srcs, Records: recs, Dests: topo[2], Split: topo[3] == 1, Window: w[0], Thresh: w[1], Reject: rej})
			}
		}
	}
	shard, nsh := verifkit.Shard()
	for ci, c := range cases {
		if ci%nsh != shard {
			continue
		}
		var got [2]string
		for ei, eng := range []string{"v1", "v2"} {
			scn := flowScenario(c.params(eng))
			e := &verifkit.Explorer{T: t, Rep: rep, Scn: scn}
			x := e.RunOnce(nil)
			rep.Eval()
			rep.Trace()
			rep.Transitions(int64(len(x.Points)))
			got[ei] = decisions(x)
			if os.Getenv("VERIF_PARITY_DUMP") == c.String() {
				for _, ev := range x.W.Events() {
					t.Logf("%s %s %s %d %s", eng, ev.Comp, ev.Kind, ev.Idx, ev.Arg)
				}
			}
		}
		rep.State(c.String() + "|" + got[0])
		rep.Outcome(fmt.Sprintf("agree=%v", got[0] == got[1]))
		if len(c.Reject) > 0 {
			rep.Nontrivial(c.String())
		}
		if got[0] != got[1] {
			if c.Sources > 1 {
				// Not a violation: the stream engine keeps ONE nack window per pipeline, the funnel engine one per source
				// (documented at lifecycle-poc/service.go buildDLQ, "M1"), so with several sources the two windows do not
				// see identical outcome sequences. Counted, not judged.
				rep.Outcome("multi-source: engines differ (per-pipeline vs per-source window)")
				continue
			}
			rep.AddViolation(verifkit.Violation{Key: "C07/engines-decide-differently/full-stack",
				Text:   fmt.Sprintf("the two engines decide differently for the same single-source pipeline and the same destination outcomes (%s):\n  stream engine (v1): %s\n  funnel engine (v2): %s", c, got[0], got[1]),
				Replay: map[string]any{"case": c}})
		}
		if ci%97 == 3 {
			rep.Sample(map[string]any{"case": c.String(), "v1": got[0], "v2": got[1]})
		}
	}
	rep.Bound("cases", len(cases))
}
