//go:build verif

package verifflow

import (
	"fmt"
	"sort"
	"strings"
	"time"

	"github.com/conduitio/conduit/pkg/verifkit"
	"github.com/conduitio/conduit/pkg/verifkit/stack"
)

type recKey struct {
	src string
	idx int
}

type epKey struct {
	src string
	ep  int
}

// analysis is everything the oracles derive from one event log.
type analysis struct {
	p       flowParams
	evs     []verifkit.Event
	dests   []string
	out     []verifkit.Violation
	healthy bool
}

func (a *analysis) bad(key, format string, args ...any) {
	a.out = append(a.out, verifkit.Violation{Key: key, Text: fmt.Sprintf(format, args...)})
}

func isSource(comp string) bool {
	return len(comp) == 2 && comp[0] == 's' && comp[1] >= '0' && comp[1] <= '9'
}
func isDest(comp string) bool {
	return len(comp) == 2 && comp[0] == 'd' && comp[1] >= '0' && comp[1] <= '9'
}

// checkFlow evaluates the data-path oracles of C01-C07, C10, C12 on the event log of one execution.
func checkFlow(p flowParams, x *verifkit.Exec) []verifkit.Violation {
	a := &analysis{p: p, evs: x.W.Events()}
	// Healthy environment (C06's exactness and termination clauses, C11's "while plugins respond"): no fault answer can
	// be chosen AND every plugin/store answer arrived promptly: nothing stayed pending for 5s of virtual time or more
	// (the engine's smallest drain time-out is 10s). Slower environments are still explored; only safety is asserted.
	a.healthy = p.healthy() && x.W.SlowestAnswer() < 5*time.Second
	if x.Panic != "" {
		a.bad("harness/panic", "panic during execution: %s", x.Panic)
	}
	for d := 0; d < p.Dests; d++ {
		a.dests = append(a.dests, fmt.Sprintf("d%d", d))
	}
	epoch := map[string]int{}
	emitted := map[epKey][]int{}
	acked := map[epKey][]int{}
	destOK := map[string]map[recKey]bool{}
	destDone := map[string]map[recKey]int{} // final outcome (ack or nack) seen: event seq
	destRecv := map[string]map[recKey]int{}
	for _, d := range a.dests {
		destOK[d] = map[recKey]bool{}
		destDone[d] = map[recKey]int{}
		destRecv[d] = map[recKey]int{}
	}
	dlqOK := map[recKey]bool{}
	dlqNacked := map[recKey]bool{}
	dlqRecvRun := map[recKey]int{}
	dlqOpenRun := map[recKey]bool{} // a DLQ write of the record is pending or confirmed in the current run
	filtered := map[recKey]bool{}
	nackedInEpoch := map[recKey]bool{}
	procRejected := map[recKey]bool{} // a processor returned an error record for it in this run
	recvOrder := map[string]map[string][]int{}
	for _, d := range append(append([]string{}, a.dests...), "dlq") {
		recvOrder[d] = map[string][]int{}
	}
	srcAckSeq := map[recKey]int{}
	handled := func(k recKey) (bool, string) {
		if dlqOK[k] || filtered[k] {
			return true, ""
		}
		for _, d := range a.dests {
			if !destOK[d][k] {
				return false, d
			}
		}
		return true, ""
	}
	lastPos := map[string]int{}      // stored position per source in the last successful commit
	lastPosSeen := map[string]bool{} // the connector record exists in the store
	opens := map[string]int{}
	teardowns := map[string]int{}
	var statuses []string
	lastStatusSeq := map[string]int{}
	forceRet, stopwaitNil, stopRet := -1, -1, -1
	statusAtForce := ""
	runEndedBeforeForce := false
	forceCalled := false
	failuresInRun := 0
	teardownSeq := map[string]int{}
	for _, e := range a.evs {
		switch {
		case e.Comp == "db" && (e.Kind == "commit" || e.Kind == "put"):
			parts := strings.SplitN(e.Arg, "|", 2)
			if len(parts) < 2 {
				break
			}
			pos, status, _ := stack.ParseDescribe(parts[1])
			for s, q := range pos {
				if lastPosSeen[s] {
					// C02(c): only forward, never back to empty
					if q < lastPos[s] {
						a.bad("C02/position-backwards", "stored position of %s went from record %d back to %d at commit #%d (event #%d)", s, lastPos[s], q, e.Idx, e.Seq)
						// C03: a crash right after this commit finds the store behind what the plugin was already told
						for k, seq := range srcAckSeq {
							if k.src == s && k.idx > q && seq < e.Seq {
								a.bad("C03/upstream-told-to-discard-beyond-disk", "a crash right after commit #%d (event #%d) loses data on a pruning upstream: %s was already told record %d is acknowledged (event #%d) but the store now holds position %d again", e.Idx, e.Seq, s, k.idx, seq, q)
								break
							}
						}
					}
				}
				// C02(d) / C03: at every commit everything at or before the stored position has been handled
				if q > lastPos[s] || !lastPosSeen[s] {
					for i := 0; i <= q; i++ {
						if k := (recKey{s, i}); nackedInEpoch[k] && !dlqOK[k] && !filtered[k] {
							if ok, _ := handled(k); ok {
								// every destination confirmed SOME record derived from it, but one derived record (a piece of a split) was
								// rejected in this run and the DLQ has not confirmed the record: it is not handled
								a.bad("C02/position-covers-unhandled", "commit #%d stores position %d for %s although a destination rejected record %d (or a record derived from it) in this run and the DLQ has not confirmed it: a crash now loses it (event #%d)", e.Idx, q, s, i, e.Seq)
								a.bad("C07/rejected-record-covered-by-position", "commit #%d (event #%d) stores position %d for %s: it covers record %d, of which a derived record was rejected and which has no confirmed DLQ write - the record is lost", e.Idx, e.Seq, q, s, i)
							}
						}
						if ok, missing := handled(recKey{s, i}); !ok {
							a.bad("C02/position-covers-unhandled", "commit #%d stores position %d for %s although record %d has not been confirmed by %s (nor dead-lettered/filtered): a crash now loses it (event #%d)", e.Idx, q, s, i, missing, e.Seq)
							if k := (recKey{s, i}); nackedInEpoch[k] || dlqNacked[k] || procRejected[k] {
								a.bad("C07/rejected-record-covered-by-position", "commit #%d (event #%d) stores position %d for %s: it covers record %d, which was rejected and has no confirmed DLQ write - the record is lost", e.Idx, e.Seq, q, s, i)
							}
							// the engine acknowledged position q to the source connector object (that is what gets persisted) while record i
							// before it has no outcome: the acknowledged sequence has a gap, whether or not the plugin was told yet
							a.bad("C04/ack-sequence-has-gap", "the position stored for %s jumped to record %d (commit #%d, event #%d) while record %d has no outcome yet (%s never confirmed it, not dead-lettered): a position was skipped in the acknowledgment sequence", s, q, e.Idx, e.Seq, i, missing)
							if forceCalled {
								a.bad("C12/unhandled-record-acknowledged", "after the force stop, commit #%d (event #%d) stores position %d for %s although record %d was never confirmed by %s (nor dead-lettered): the force stop caused a record to be acknowledged that was not handled", e.Idx, e.Seq, q, s, i, missing)
							}
							a.bad("C03/crash-loses-record", "a crash right after commit #%d (event #%d) loses record %d of %s: the stored position is %d but %s never confirmed it", e.Idx, e.Seq, i, s, q, missing)
							break
						}
					}
				}
				lastPos[s], lastPosSeen[s] = q, true
			}
			if status != "" && strings.Contains(parts[0], "pipeline:instance:") {
				if len(statuses) == 0 || statuses[len(statuses)-1] != status {
					statuses = append(statuses, status)
				}
				lastStatusSeq[status] = e.Seq
			}
		case isSource(e.Comp) && e.Kind == "open":
			epoch[e.Comp]++
			opens[e.Comp]++
			failuresInRun = 0
			for d := range recvOrder {
				recvOrder[d][e.Comp] = nil
			}
			for k := range dlqRecvRun {
				if k.src == e.Comp {
					delete(dlqRecvRun, k)
				}
			}
			for k := range nackedInEpoch {
				if k.src == e.Comp {
					delete(nackedInEpoch, k)
				}
			}
			for k := range procRejected {
				if k.src == e.Comp {
					delete(procRejected, k)
				}
			}
			for k := range dlqNacked {
				if k.src == e.Comp {
					delete(dlqNacked, k)
				}
			}
			for k := range dlqOpenRun {
				if k.src == e.Comp {
					delete(dlqOpenRun, k)
				}
			}
			// C03 / C12: the position a source is (re)opened with is never past an unhandled record (within one process
			// the engine resumes from its in-memory position, which may be ahead of the store but not of the handling)
			for i := 0; i <= e.Idx; i++ {
				if ok, missing := handled(recKey{e.Comp, i}); !ok {
					a.bad("C03/open-position", "source %s was reopened at position %d although record %d was never confirmed by %s (event #%d)", e.Comp, e.Idx, i, missing, e.Seq)
					a.bad("C12/resume-skips-record", "source %s was reopened at position %d although record %d was never confirmed by %s (event #%d)", e.Comp, e.Idx, i, missing, e.Seq)
					break
				}
			}
		case (isSource(e.Comp) || isDest(e.Comp) || e.Comp == "dlq") && e.Kind == "open":
			opens[e.Comp]++
		case e.Kind == "openfail" || e.Kind == "runerr" || e.Kind == "readerr":
			failuresInRun++
		case e.Kind == "teardown" && e.Arg == "":
			teardowns[e.Comp]++
			teardownSeq[e.Comp] = e.Seq
		case isSource(e.Comp) && e.Kind == "emit":
			ek := epKey{e.Comp, epoch[e.Comp]}
			emitted[ek] = append(emitted[ek], e.Idx)
		case isSource(e.Comp) && e.Kind == "ack" && e.Idx == -1:
			// the engine handed an EMPTY position to the source plugin (and stored it): only a source that emitted a record
			// without a position can cause this; the engine must refuse such a record instead
			a.bad("C09/empty-position-acknowledged/"+p.Engine, "source %s was acknowledged an EMPTY position (event #%d): the record without a position was accepted, acked and its empty position persisted", e.Comp, e.Seq)
		case isSource(e.Comp) && e.Kind == "ack" && e.Idx == -2:
			// the source plugin was acknowledged a position it never emitted (a processor result's own position leaked into
			// the ack path)
			a.bad("C09/foreign-position-acknowledged/"+p.Engine, "source %s was acknowledged position %q, which it never emitted (event #%d)", e.Comp, e.Arg, e.Seq)
			a.bad("C04/foreign-position-acknowledged", "source %s was acknowledged position %q, which it never emitted (event #%d)", e.Comp, e.Arg, e.Seq)
			a.bad("C08/acked-position-changed", "source %s was acknowledged position %q instead of the position of the record it read (event #%d)", e.Comp, e.Arg, e.Seq)
		case isSource(e.Comp) && e.Kind == "ack":
			ek := epKey{e.Comp, epoch[e.Comp]}
			acked[ek] = append(acked[ek], e.Idx)
			k := recKey{e.Comp, e.Idx}
			srcAckSeq[k] = e.Seq
			if ok, missing := handled(k); !ok {
				a.bad("C01/ack-before-destination", "source %s was told record %d is acknowledged before destination %s (or the DLQ) confirmed it (event #%d)", e.Comp, e.Idx, missing, e.Seq)
				if forceCalled {
					a.bad("C12/unhandled-record-acknowledged", "after the force stop source %s was told record %d is acknowledged although %s never confirmed it (event #%d)", e.Comp, e.Idx, missing, e.Seq)
				}
			}
			if nackedInEpoch[k] && !dlqOK[k] && !filtered[k] {
				// a destination REJECTED the record (or one of the records derived from it) in this run and no DLQ write is
				// confirmed: "every destination positively confirmed every record derived from it" does not hold
				a.bad("C01/ack-before-destination/rejected-piece", "source %s was told record %d is acknowledged although a destination rejected it (or a record derived from it) in this run and the DLQ has not confirmed it (event #%d)", e.Comp, e.Idx, e.Seq)
			}
			if dlqNacked[k] && !dlqOK[k] {
				a.bad("C07/ack-after-failed-dlq-write", "record %d of %s was acknowledged although its DLQ write was rejected (event #%d)", e.Idx, e.Comp, e.Seq)
			}
			if nackedInEpoch[k] && !dlqOK[k] {
				a.bad("C07/rejected-record-acked-without-dlq", "record %d of %s was rejected by a destination in this run and acknowledged without a confirmed DLQ write (event #%d)", e.Idx, e.Comp, e.Seq)
			}
			if procRejected[k] && !dlqOK[k] {
				a.bad("C07/rejected-record-acked-without-dlq", "a processor returned an error for record %d of %s in this run, yet the record was acknowledged without a confirmed DLQ write (event #%d)", e.Idx, e.Comp, e.Seq)
			}
			n := len(acked[ek])
			if n > len(emitted[ek]) || emitted[ek][n-1] != e.Idx {
				a.bad("C04/ack-order", "source %s run %d: ack sequence %v is not a prefix of the emitted sequence %v (event #%d)", e.Comp, ek.ep, acked[ek], emitted[ek], e.Seq)
			}
			// C02(a): a successful commit holding this position (or a later one) precedes the plugin ack
			if !lastPosSeen[e.Comp] || lastPos[e.Comp] < e.Idx {
				a.bad("C02/ack-before-durable", "source %s received the ack for record %d while the store durably holds position %d (event #%d)", e.Comp, e.Idx, lastPos[e.Comp], e.Seq)
				a.bad("C03/upstream-told-to-discard-beyond-disk", "a crash right after event #%d loses data on a pruning upstream: %s was told record %d is acknowledged while the store durably holds position %d", e.Seq, e.Comp, e.Idx, lastPos[e.Comp])
			}
		case isDest(e.Comp) && e.Kind == "recv" && filtered[recKey{strings.SplitN(e.Arg, "|", 2)[0], e.Idx}] && !strings.Contains(e.Arg, "piece=") && allPipelineLevel(p):
			a.bad("C05/filtered-record-delivered", "destination %s received record %d of %s although a processor filtered it out (event #%d)", e.Comp, e.Idx, strings.SplitN(e.Arg, "|", 2)[0], e.Seq)
			a.bad("C08/filtered-record-delivered", "destination %s received record %d of %s although a processor filtered it out (event #%d)", e.Comp, e.Idx, strings.SplitN(e.Arg, "|", 2)[0], e.Seq)
			fallthrough
		case isDest(e.Comp) && e.Kind == "recv":
			if want := wantPath(p, e.Comp); want != "" && !strings.Contains(e.Arg, "|dlq|") {
				got := ""
				if k := strings.Index(e.Arg, "path="); k >= 0 {
					got = strings.SplitN(e.Arg[k+5:], "|", 2)[0]
				}
				if got != want {
					a.bad("C08/record-delivered-without-its-processing", "destination %s received record %d with processing path %q, the pipeline's processors are %q: a stale copy of the record, or one a processor never returned, was delivered (event #%d)", e.Comp, e.Idx, got, want, e.Seq)
					a.bad("C09/unprocessed-record-delivered/"+p.Engine, "destination %s received record %d with processing path %q, the pipeline's processors are %q (event #%d)", e.Comp, e.Idx, got, want, e.Seq)
				}
			}
			src := strings.SplitN(e.Arg, "|", 2)[0]
			seq := recvOrder[e.Comp][src]
			if len(seq) > 0 && seq[len(seq)-1] >= e.Idx {
				a.bad("C05/destination-order", "destination %s received record %d of %s after %v within one run (event #%d)", e.Comp, e.Idx, src, seq, e.Seq)
			}
			recvOrder[e.Comp][src] = append(seq, e.Idx)
			destRecv[e.Comp][recKey{src, e.Idx}] = e.Seq
		case e.Comp == "dlq" && e.Kind == "recv":
			parts := strings.Split(e.Arg, "|")
			src := parts[0]
			k := recKey{src, e.Idx}
			dlqRecvRun[k]++
			// exactly once = one CONFIRMED copy: a write the DLQ rejected may be retried, a confirmed or still pending one may not
			if dlqOpenRun[k] {
				a.bad("C07/dlq-twice", "record %d of %s was written to the DLQ again (write #%d of this run) while an earlier write was confirmed or still pending (event #%d)", e.Idx, src, dlqRecvRun[k], e.Seq)
			}
			dlqOpenRun[k] = true
			seq := recvOrder["dlq"][src]
			if len(seq) > 0 && seq[len(seq)-1] > e.Idx { // == is a retry after a rejected write (see dlq-twice)
				a.bad("C07/dlq-order", "DLQ received record %d of %s after %v (event #%d)", e.Idx, src, seq, e.Seq)
			}
			recvOrder["dlq"][src] = append(seq, e.Idx)
			if len(parts) < 4 || parts[1] != "dlq" || parts[2] == "" || parts[3] == "" {
				a.bad("C07/dlq-metadata", "DLQ record for %s:%d does not carry the original record, the failing component and the error (%q)", src, e.Idx, e.Arg)
			}
		case e.Comp == "dlq" && e.Kind == "ack":
			dlqOK[recKey{strings.SplitN(e.Arg, "|", 2)[0], e.Idx}] = true
		case e.Comp == "dlq" && e.Kind == "nack":
			dlqNacked[recKey{strings.SplitN(e.Arg, "|", 2)[0], e.Idx}] = true
			dlqOpenRun[recKey{strings.SplitN(e.Arg, "|", 2)[0], e.Idx}] = false
		case isDest(e.Comp) && e.Kind == "ack":
			k := recKey{strings.SplitN(e.Arg, "|", 2)[0], e.Idx}
			destOK[e.Comp][k] = true
			destDone[e.Comp][k] = e.Seq
		case isDest(e.Comp) && e.Kind == "nack":
			k := recKey{strings.SplitN(e.Arg, "|", 2)[0], e.Idx}
			destDone[e.Comp][k] = e.Seq
			nackedInEpoch[k] = true
		case e.Comp == "proc" && e.Kind == "filter":
			filtered[recKey{e.Arg, e.Idx}] = true
		case e.Comp == "proc" && e.Kind == "error":
			procRejected[recKey{e.Arg, e.Idx}] = true
		case e.Comp == "ctl" && e.Kind == "call" && e.Arg == "force":
			forceCalled = true
			for c, n := range opens {
				if n > 0 && teardowns[c] >= n {
					runEndedBeforeForce = true // a connector of the current run is already torn down: the run is ending on its own
				}
			}
			if failuresInRun > 0 {
				runEndedBeforeForce = true // a connector failed to open / its stream failed: the run is ending on its own
			}
			if len(statuses) > 0 {
				statusAtForce = statuses[len(statuses)-1]
			}
		case e.Comp == "ctl" && e.Kind == "force.ret":
			forceRet = e.Seq
		case e.Comp == "ctl" && e.Kind == "stopwait.ret":
			stopRet = e.Seq
			if e.Arg == "nil" {
				stopwaitNil = e.Seq
			}
		}
		// ---- C06: everything that must already be true when stop-and-wait returns nil ----
		if e.Comp == "ctl" && e.Kind == "stopwait.ret" && e.Arg == "nil" {
			a.checkDrained("stop-and-wait returned nil", e.Seq, epoch, emitted, acked, destRecv, destDone, dlqRecvRun, dlqOK, srcAckSeq, teardownSeq, lastPos, lastPosSeen, opens, teardowns)
		}
	}
	final := ""
	if n := len(a.evs); n > 0 && a.evs[n-1].Comp == "end" {
		final = strings.SplitN(a.evs[n-1].Arg, "|", 2)[0]
	}
	// ---- C06 termination: in a healthy environment the graceful stop completes ----
	if a.healthy && (p.Stop == "stopwait" || p.Stop == "stop+wait") && !x.StepCapHit {
		issued := false
		for _, c := range x.Controls {
			if (c.Name == "stopwait" || c.Name == "stop") && c.Issued() {
				issued = true
				if !c.ReturnedInTime() {
					a.bad("C06/stop-never-returns", "the graceful stop (%s) never returned although every plugin and the store answered (wedged)", c.Name)
				}
			}
		}
		if issued && p.Stop == "stop+wait" {
			// after Stop + WaitPipeline the same drained state must hold once everything went quiet
			retNil := false
			for _, e := range a.evs {
				if e.Comp == "ctl" && e.Kind == "wait.ret" && e.Arg == "nil" {
					retNil = true
				}
			}
			if retNil {
				a.checkDrained("stop + wait returned nil and the engine went quiet", len(a.evs), epoch, emitted, acked, destRecv, destDone, dlqRecvRun, dlqOK, srcAckSeq, teardownSeq, lastPos, lastPosSeen, opens, teardowns)
			}
		}
		if issued && stopRet >= 0 && stopwaitNil < 0 && p.Stop == "stopwait" {
			// a healthy pipeline that is running must stop without error
			for _, e := range a.evs {
				if e.Seq == stopRet && !strings.Contains(e.Arg, "not running") {
					a.bad("C06/stop-and-wait-error", "stop-and-wait of a healthy pipeline failed: %s", e.Arg)
				}
			}
		}
	}
	// ---- C06, system shutdown: StopAll (graceful, with a reason) followed by Wait ----
	if a.healthy && p.Stop == "stopall" && !x.StepCapHit {
		for _, c := range x.Controls {
			if c.Name == "stopall" && c.Issued() && !c.ReturnedInTime() {
				a.bad("C06/stop-never-returns", "the graceful shutdown (StopAll + Wait) never returned although every plugin and the store answered (wedged)")
			}
		}
		for _, e := range a.evs {
			if e.Comp == "ctl" && e.Kind == "waitall.ret" {
				if e.Arg == "nil" {
					a.checkDrained("StopAll + Wait returned nil", e.Seq, epoch, emitted, acked, destRecv, destDone, dlqRecvRun, dlqOK, srcAckSeq, teardownSeq, lastPos, lastPosSeen, opens, teardowns)
				} else {
					a.bad("C06/stop-and-wait-error", "the graceful shutdown of a healthy pipeline failed: %s", e.Arg)
				}
			}
		}
	}
	// ---- C12: force stop ----
	if p.Stop == "force" && forceRet >= 0 {
		waited := false
		endSeq := len(a.evs) + 1 // the exploration of the execution ended here; afterwards the harness winds the engine down
		for _, e := range a.evs {
			if e.Comp == "end" && e.Kind == "status" {
				endSeq = e.Seq
				break
			}
		}
		for _, e := range a.evs {
			if e.Seq > forceRet && e.Seq < endSeq && e.Comp == "ctl" && e.Kind == "wait.ret" {
				// (a wait that only returns during the harness's wind-down - aborted gates, cancelled contexts - did not return
				// on its own: the run had not terminated)
				waited = true
			}
			if e.Seq > forceRet && isSource(e.Comp) && e.Kind == "open" && !p.Restart {
				key := "C12/restart-after-force-stop"
				if statusAtForce == "Recovering" || runEndedBeforeForce {
					// the force stop was accepted after the run had already failed with a transient error (the cleanup
					// goroutine / recovery back-off was pending): it does not cancel the pending recovery
					key = "C12/force-stop-does-not-cancel-pending-recovery/" + p.Engine
				}
				a.bad(key, "the pipeline was restarted automatically after a force stop that returned nil (status when it was issued: %s; source %s opened again, event #%d)", statusAtForce, e.Comp, e.Seq)
				break
			}
		}
		forceOK := false
		for _, e := range a.evs {
			if e.Seq == forceRet && e.Arg == "nil" {
				forceOK = true
			}
		}
		if forceOK && !waited && !x.StepCapHit && !runEndedBeforeForce {
			a.bad("C12/run-does-not-terminate", "the run did not terminate after a force stop (WaitPipeline never returned)")
		}
		if forceOK && waited && p.Restart && a.healthy && !x.StepCapHit {
			// the run ended cleanly: everything it held is released, the pipeline can be started again
			for _, e := range a.evs {
				if e.Comp == "ctl" && e.Kind == "restart.ret" && e.Arg != "nil" {
					a.bad("C12/start-refused-after-force-stop", "the run ended after the force stop (WaitPipeline returned) but the next Start is refused: %s", e.Arg)
				}
			}
		}
		if forceOK && waited && !p.Restart && final != "" && final != "Degraded" {
			a.bad("C12/status-after-force-stop", "final status after a force stop is %s, expected Degraded (failed by force stop)", final)
		}
	}
	if x.Hang != "" {
		// Goroutines still blocked after the wind-down are recorded, not reported: the properties speak of runs that
		// do not end and calls that do not return (checked above through WaitPipeline / the control calls), not of
		// helper goroutines that outlive a run.
		x.Obs["leak"] = x.LeakStacks
	}
	x.Obs["statuses"] = statuses
	a.checkRecovery(x)
	a.checkWindow()
	a.checkUnlimitedWindow(x)
	a.checkNothingRejected(x)
	a.checkControl(x)
	a.checkReconf(x)
	a.checkApply(x)
	return a.out
}

// healthy: no fault answer can be chosen in this scenario (the classification is static, from the menus).
func (p flowParams) healthy() bool {
	only := func(m []string) bool {
		for _, a := range m {
			if a != "ok" && a != "defer" {
				return false
			}
		}
		return true
	}
	return only(p.AckMenu) && only(p.DLQMenu) && only(p.ReadMenu) && !p.Faults && !p.AckSendFaults && len(p.Blocked) == 0 && !p.GateDestOpen && !p.GateDLQOpen
}

func (a *analysis) checkDrained(when string, at int, epoch map[string]int, emitted, acked map[epKey][]int,
	destRecv, destDone map[string]map[recKey]int, dlqRecvRun map[recKey]int, dlqOK map[recKey]bool, srcAckSeq map[recKey]int,
	teardownSeq map[string]int, lastPos map[string]int, lastPosSeen map[string]bool, opens, teardowns map[string]int) {
	if !a.healthy {
		return
	}
	for _, d := range a.dests {
		var keys []recKey
		for k := range destRecv[d] {
			keys = append(keys, k)
		}
		sort.Slice(keys, func(i, j int) bool {
			return keys[i].src < keys[j].src || keys[i].src == keys[j].src && keys[i].idx < keys[j].idx
		})
		for _, k := range keys {
			if _, ok := destDone[d][k]; !ok {
				a.bad("C06/half-handled", "%s: record %d of %s reached destination %s but has no final outcome", when, k.idx, k.src, d)
				continue
			}
			as, ok := srcAckSeq[k]
			if !ok {
				a.bad("C06/delivered-not-acked", "%s: record %d of %s was delivered to %s but never acknowledged to its source", when, k.idx, k.src, d)
			} else if ts, torn := teardownSeq[k.src]; torn && ts < as {
				a.bad("C06/ack-after-teardown", "%s: record %d of %s was acknowledged after the source connector was torn down", when, k.idx, k.src)
			}
		}
	}
	for s, ep := range epoch {
		ak := acked[epKey{s, ep}]
		last := -1
		if len(ak) > 0 {
			last = ak[len(ak)-1]
		}
		stored := -1
		if lastPosSeen[s] {
			stored = lastPos[s]
		}
		// the stored position is exactly the last acknowledged record (of this run, or what was there before it)
		if len(ak) > 0 && stored != last {
			a.bad("C06/position-not-last-ack", "%s: stored position of %s is record %d but the last acknowledged record is %d", when, s, stored, last)
		}
	}
	for c, n := range opens {
		if teardowns[c] != n {
			a.bad("C06/teardown-count", "%s: connector %s was opened %d times and torn down %d times", when, c, n, teardowns[c])
		}
	}
}

// checkRecovery is the C10 oracle: fatal causes degrade (and stay), transient ones recover within the configured
// bounds, stopped stays stopped.
func (a *analysis) checkRecovery(x *verifkit.Exec) {
	p := a.p
	rec := stack.DefaultRecovery()
	maxRetries := rec.MaxRetries
	if p.Retries > 0 {
		maxRetries = int64(p.Retries)
	} else if p.Retries < 0 {
		maxRetries = 0
	}
	type stEv struct {
		status string
		seq    int
		t      time.Duration
		live   bool // a source connector was open when the status was written
	}
	srcOpenNow := 0
	var sts []stEv
	var opens []verifkit.Event
	fatalInjected, fatalInjectedSeq := "", -1 // a cause the property lists as fatal entered the engine
	userStopSeq, userStopOK, shutdownSeq := -1, false, -1
	transientSeq := -1 // first transient failure (plugin open / run / read error) of the history
	lastUserStart := -1
	var userStarts []int
	transientInRun := 0
	for _, e := range a.evs {
		switch {
		case e.Comp == "db" && e.Kind == "put" && strings.HasPrefix(e.Arg, "pipeline:instance:"):
			parts := strings.SplitN(e.Arg, "|", 2)
			if len(parts) == 2 {
				_, status, _ := stack.ParseDescribe(parts[1])
				if status != "" && (len(sts) == 0 || sts[len(sts)-1].status != status) {
					sts = append(sts, stEv{status, e.Seq, e.T, srcOpenNow > 0})
				}
			}
		case isSource(e.Comp) && e.Kind == "teardown":
			if srcOpenNow > 0 {
				srcOpenNow--
			}
		case isSource(e.Comp) && e.Kind == "open":
			srcOpenNow++
			opens = append(opens, e)
			transientInRun = 0
		case e.Comp == "proc" && e.Kind == "error" && p.Window > 0 && p.Thresh == 0:
			// the nack window tolerates no rejection: a processor error is one the DLQ does not absorb
			if transientInRun == 0 && fatalInjected == "" {
				fatalInjected, fatalInjectedSeq = "a processor error that the DLQ does not absorb (nack window tolerates no rejection)", e.Seq
			}
		case e.Comp == "proc" && e.Kind == "short" && alwaysShort(p):
			// the processor leaves this record out every time it is asked: the retries cannot converge
			if transientInRun == 0 && fatalInjected == "" {
				fatalInjected, fatalInjectedSeq = "a processor that never returns a result for a record (non-converging)", e.Seq
			}
		case e.Comp == "dlq" && e.Kind == "runerr":
			if transientInRun == 0 && fatalInjected == "" {
				fatalInjected, fatalInjectedSeq = "a DLQ write failed (the DLQ connector failed while the record was written to it)", e.Seq
			}
		case e.Kind == "openfail" || e.Kind == "runerr" || e.Kind == "readerr":
			transientInRun++ // the run is already failing for a transient reason: that first cause decides its fate
			if transientSeq < 0 && fatalInjected == "" && !strings.HasPrefix(e.Arg, "ctx") && e.Arg != "abort" {
				transientSeq = e.Seq
			}
		case e.Comp == "dlq" && e.Kind == "nack":
			if transientInRun == 0 && fatalInjected == "" {
				fatalInjected, fatalInjectedSeq = "a DLQ write failed (the DLQ rejected the record)", e.Seq
			}
		case e.Comp == "ctl" && e.Kind == "call" && (e.Arg == "stopwait" || e.Arg == "stop"):
			userStopSeq = e.Seq
		case e.Comp == "ctl" && (e.Kind == "stopwait.ret" || e.Kind == "stop.ret") && e.Arg == "nil":
			userStopOK = true
		case e.Comp == "ctl" && e.Kind == "call" && e.Arg == "stopall":
			shutdownSeq = e.Seq
		case e.Comp == "ctl" && e.Kind == "call" && (e.Arg == "start" || e.Arg == "restart" || strings.HasPrefix(e.Arg, "start#")):
			lastUserStart = e.Seq
			userStarts = append(userStarts, e.Seq)
		}
	}
	final := ""
	if len(sts) > 0 {
		final = sts[len(sts)-1].status
	}
	// R1/R2/R6: nothing reopens a pipeline after a terminal status unless a user starts it
	for _, s := range sts {
		if s.status != "Degraded" && s.status != "UserStopped" && s.status != "SystemStopped" {
			continue
		}
		for _, o := range opens {
			if o.Seq > s.seq && lastUserStart < s.seq {
				a.bad("C10/restarted-after-"+strings.ToLower(s.status), "the pipeline reached status %s (event #%d) and was opened again automatically (source %s opened at event #%d)", s.status, s.seq, o.Comp, o.Seq)
				break
			}
		}
	}
	// R5: a fatal cause degrades the pipeline and is never recovered from
	if fatalInjected != "" && !x.StepCapHit && x.W.SlowestAnswer() < 5*time.Second {
		for _, s := range sts {
			if s.seq > fatalInjectedSeq && s.status == "Recovering" {
				a.bad("C10/fatal-cause-recovered/"+p.Engine, "%s (event #%d), a fatal cause, but the pipeline went to Recovering (event #%d) instead of Degraded", fatalInjected, fatalInjectedSeq, s.seq)
				break
			}
		}
		if final != "Degraded" && final != "" && forceless(a.evs) && userStopSeq < 0 {
			recovering := false
			for _, s := range sts {
				if s.seq > fatalInjectedSeq && s.status == "Recovering" {
					recovering = true
				}
			}
			if !recovering {
				a.bad("C10/fatal-cause-not-degraded/"+p.Engine, "%s (event #%d), a fatal cause, but the pipeline ended %s instead of Degraded (status history %v)", fatalInjected, fatalInjectedSeq, final, statusNames(sts2names(sts)))
			}
		}
	}
	// R3/R4: transient -> restart after a back-off within [MinDelay, MaxDelay], at most MaxRetries automatic restarts in any
	// interval as long as the retry window. A restart the USER asked for while the pipeline was recovering is not an
	// automatic one.
	var autoRestarts []time.Duration
	var autoRestartSeq []int
	for si, s := range sts {
		if s.status != "Recovering" {
			continue
		}
		if s.live {
			// written while a (newer) run was already live: the status write of the failed run landed late, after a user
			// start replaced it - no automatic restart belongs to it
			continue
		}
		// the status may land after a user start already replaced the failed run (the write was still in flight): the
		// next status is Running with no source opened in between - that restart is not recovery's
		if si+1 < len(sts) && sts[si+1].status == "Running" {
			opened := false
			for _, o := range opens {
				if o.Seq > s.seq && o.Seq < sts[si+1].seq {
					opened = true
				}
			}
			if !opened {
				continue
			}
		}
		for _, o := range opens {
			if o.Seq > s.seq {
				byUser := false
				for _, us := range userStarts {
					if us > s.seq && us < o.Seq {
						byUser = true
					}
				}
				if byUser {
					break
				}
				d := o.T - s.t
				if d < rec.MinDelay || d > rec.MaxDelay+time.Second {
					a.bad("C10/backoff-out-of-bounds", "recovery restart %v after the failure (event #%d -> #%d); configured bounds [%v, %v]", d, s.seq, o.Seq, rec.MinDelay, rec.MaxDelay)
				}
				autoRestarts = append(autoRestarts, o.T)
				autoRestartSeq = append(autoRestartSeq, o.Seq)
				break
			}
		}
	}
	for i := range autoRestarts {
		n := 0
		for j := i; j < len(autoRestarts) && autoRestarts[j]-autoRestarts[i] < rec.MaxRetriesWindow; j++ {
			fresh := false // a start by the user (e.g. after Degraded) begins a new run with a fresh retry budget
			for _, us := range userStarts {
				if j > i && us > autoRestartSeq[j-1] && us < autoRestartSeq[j] {
					fresh = true
				}
			}
			if fresh {
				break
			}
			n++
		}
		if int64(n) > maxRetries {
			a.bad("C10/too-many-recovery-attempts", "%d automatic restarts within %v (at %v) although MaxRetries is %d per %v", n, rec.MaxRetriesWindow, autoRestarts[i:i+n], maxRetries, rec.MaxRetriesWindow)
			break
		}
	}
	// ... and the counterpart: recovery may only give up ("failed to recover ... after N attempts") when the retries
	// made within the configured window really exhausted the budget - attempts made long ago do not count
	// (the moment recovery gave up is only visible through the failure event that follows its status write: judged only
	// when the store and the plugins answered promptly, otherwise a write the explorer kept pending for minutes of virtual
	// time moves that event out of the window)
	// (and not under an armed preemption: with node goroutines held at a statement the restarted run's source opens only
	// AFTER its Running status is written, and the attribution of opens to recovery restarts above relies on the usual order)
	if maxRetries > 0 && fatalInjected == "" && forceless(a.evs) && len(p.Ctl) == 0 && !x.StepCapHit && x.W.SlowestBusyAnswer() < 5*time.Second && len(x.Armed) == 0 {
		for _, e := range a.evs {
			if e.Comp == "lc" && e.Kind == "failure" && strings.Contains(e.Arg, "failed to recover pipeline") {
				n := 0
				for _, t := range autoRestarts {
					if t <= e.T && e.T-t < rec.MaxRetriesWindow {
						n++
					}
				}
				if int64(n) < maxRetries {
					a.bad("C10/recovery-gave-up-early/"+p.Engine, "recovery gave up (%s, event #%d) although only %d automatic restart(s) fall into the last %v; MaxRetries is %d per window (restarts at %v)", firstLine(e.Arg), e.Seq, n, rec.MaxRetriesWindow, maxRetries, autoRestarts)
				}
				break
			}
		}
	}
	// R7: a transient cause leads to an automatic restart: a run whose first failure is transient, with nobody stopping
	// the pipeline, must not simply end stopped (no Recovering / Degraded status, no restart)
	if transientSeq >= 0 && fatalInjected == "" && userStopSeq < 0 && shutdownSeq < 0 && forceless(a.evs) && len(p.Ctl) == 0 && !x.StepCapHit && x.W.SlowestAnswer() < 5*time.Second {
		handled := false
		for _, s := range sts {
			if s.seq > transientSeq && (s.status == "Recovering" || s.status == "Degraded") {
				handled = true
			}
		}
		for _, o := range opens {
			if o.Seq > transientSeq {
				handled = true
			}
		}
		if !handled && (final == "UserStopped" || final == "SystemStopped") {
			a.bad("C10/transient-failure-not-recovered/"+p.Engine, "a transient failure (event #%d) ended the run, nobody stopped the pipeline, but it ended %s without any recovery attempt or degraded status (status history %v)", transientSeq, final, statusNames(sts2names(sts)))
		}
	}
	// R8: a pipeline that a user stopped (or that the shutting-down server stopped) is never restarted by recovery, also
	// when the failure arrives DURING the graceful stop: the request was made on a live, healthy run (no failure of any
	// kind before it) and was accepted (the stop call itself did not fail; a StopAndWait that reports the failed drain
	// was accepted), nobody started the pipeline afterwards.
	if forceless(a.evs) && len(p.Apply) == 0 && len(p.Reconf) == 0 && !x.StepCapHit {
		firstFailure := -1
		fatalSeen := fatalInjected != ""
		for _, e := range a.evs {
			if (e.Kind == "readerr" || e.Kind == "runerr" || e.Kind == "openfail") && e.Arg == "fatal" {
				fatalSeen = true // a plugin error marked fatal: Degraded is the matching end
			}
		}
		for _, e := range a.evs {
			if e.Kind == "openfail" || e.Kind == "runerr" || e.Kind == "readerr" || (e.Comp == "proc" && e.Kind == "error") || (e.Comp == "dlq" && e.Kind == "nack") || e.Kind == "commitfail" || e.Kind == "putfail" || e.Kind == "txfail" {
				firstFailure = e.Seq
				break
			}
		}
		live, status := 0, ""
		for i, e := range a.evs {
			switch {
			case e.Comp == "db" && e.Kind == "put" && strings.HasPrefix(e.Arg, "pipeline:instance:"):
				if parts := strings.SplitN(e.Arg, "|", 2); len(parts) == 2 {
					_, status, _ = stack.ParseDescribe(parts[1])
				}
			case isSource(e.Comp) && e.Kind == "open":
				live++
			case isSource(e.Comp) && e.Kind == "teardown":
				live--
			}
			op := e.Arg // control calls of a scripted history are named "<op>#<n>"
			if k := strings.Index(op, "#"); k >= 0 {
				op = op[:k]
			}
			if e.Comp != "ctl" || e.Kind != "call" || (op != "stop" && op != "stopwait" && op != "stopall") {
				continue
			}
			if live <= 0 || status != "Running" || (firstFailure >= 0 && firstFailure < e.Seq) || lastUserStart > e.Seq {
				continue
			}
			// was it accepted?
			accepted := op == "stopall"
			for _, r := range a.evs[i+1:] {
				if r.Comp == "ctl" && (r.Kind == op+".ret" || r.Kind == "hist."+op+".ret") {
					res := strings.SplitN(r.Arg, "|status=", 2)[0]
					accepted = res == "nil" || strings.Contains(res, "did not stop gracefully")
					break
				}
			}
			if !accepted {
				continue
			}
			who, want := "the user stopped the pipeline", "UserStopped"
			if op == "stopall" {
				who, want = "the server shut down gracefully (StopAll)", "SystemStopped"
			}
			for _, o := range opens {
				if o.Seq > e.Seq {
					a.bad("C10/restarted-after-stop-request/"+p.Engine, "%s (event #%d, on a live run that had not failed) but recovery restarted it afterwards (source %s opened at event #%d; status history %v)", who, e.Seq, o.Comp, o.Seq, statusNames(sts2names(sts)))
					break
				}
			}
			if final != "" && final != want && !(final == "Degraded" && fatalSeen) {
				a.bad("C10/stop-request-status/"+p.Engine, "%s (event #%d, on a live run that had not failed) but it ended %s, not %s (status history %v)", who, e.Seq, final, want, statusNames(sts2names(sts)))
			}
			break
		}
	}
	// user stop / shutdown end in the matching stopped status
	if userStopOK && userStopSeq >= 0 && a.healthy && final != "UserStopped" && final != "" {
		a.bad("C10/user-stop-status", "the user stopped the pipeline (event #%d) but it ended %s", userStopSeq, final)
	}
	if shutdownSeq >= 0 && a.healthy && final != "SystemStopped" && final != "" && !x.StepCapHit {
		a.bad("C10/shutdown-status", "the server shut down gracefully (StopAll at event #%d) but the pipeline ended %s, not SystemStopped", shutdownSeq, final)
	}
}

// restartedBefore reports whether a source connector was opened between the two events (a restart reads the stored
// configuration anew).
// openedByTheRunItself reports whether the processor instance comp ("proc:<name>#k") is the FIRST instance of its
// processor that the current run opened, and was opened only after the request was issued (event from): the node's own
// initial Open read the configuration the request had already stored - a start, not the live reconfigure taking effect
// (reachable when the request arrives while the node goroutine has not opened its processor yet).
func openedByTheRunItself(evs []verifkit.Event, comp string, from int) bool {
	name := strings.SplitN(comp, "#", 2)[0] + "#"
	runStart := -1
	for _, e := range evs {
		if e.Comp == "ctl" && e.Kind == "call" && (e.Arg == "start" || strings.HasPrefix(e.Arg, "start#")) {
			runStart = e.Seq
		}
	}
	for _, e := range evs {
		if e.Seq > runStart && strings.HasPrefix(e.Comp, name) && (e.Kind == "open" || e.Kind == "openfail") {
			return e.Comp == comp && e.Seq > from
		}
	}
	return false
}

func restartedBefore(evs []verifkit.Event, from, to int) bool {
	for _, e := range evs {
		if e.Seq > from && e.Seq < to && isSource(e.Comp) && e.Kind == "open" {
			return true
		}
	}
	return false
}

func firstLine(t string) string {
	if i := strings.Index(t, "\n"); i >= 0 {
		t = t[:i]
	}
	if len(t) > 160 {
		t = t[:160]
	}
	return t
}

// openFailedBetween reports whether a plugin refused to open between the two events (a Start that fails because of it says
// nothing about the previous run).
func openFailedBetween(evs []verifkit.Event, from, to int) bool {
	for _, e := range evs {
		if e.Seq > from && e.Seq < to && e.Kind == "openfail" {
			return true
		}
	}
	return false
}

func modeOf(fields []string) string {
	for _, kv := range fields {
		if strings.HasPrefix(kv, "mode=") {
			return kv[5:]
		}
	}
	return ""
}

// healthyMenus: every plugin answer of the scenario is a plain confirmation.
func (p flowParams) healthyMenus() bool {
	for _, m := range [][]string{p.AckMenu, p.DLQMenu} {
		for _, a := range m {
			if a != "ok" {
				return false
			}
		}
	}
	return true
}

func (a *analysis) singleWorkerProcs() bool {
	for _, pr := range a.p.Procs {
		if pr.Workers > 1 {
			return false
		}
	}
	return true
}

// applyKind returns the kind ("conn", "proc", ...) of the n-th (1-based) apply of the scenario.
func applyKind(specs []string, n int) string {
	if n < 1 || n > len(specs) {
		return ""
	}
	return strings.Split(strings.TrimPrefix(specs[n-1], "||"), "+")[0]
}

// alwaysShort reports whether a processor of the scenario answers "short" (not "short once") for some record.
func alwaysShort(p flowParams) bool {
	for _, pr := range p.Procs {
		for _, k := range pr.Kinds {
			if k == "short" {
				return true
			}
		}
	}
	return false
}

// statusWriteAfter reports whether the pipeline's status was written (or a write of it was refused) after event seq.
func statusWriteAfter(evs []verifkit.Event, seq int) bool {
	for _, e := range evs {
		if e.Seq > seq && e.Comp == "db" && (e.Kind == "put" || e.Kind == "putfail") && strings.HasPrefix(e.Arg, "pipeline:instance:") {
			return true
		}
	}
	return false
}

func forceless(evs []verifkit.Event) bool {
	for _, e := range evs {
		if e.Comp == "ctl" && e.Kind == "call" && e.Arg == "force" {
			return false
		}
	}
	return true
}

func sts2names[T any](s []T) []T { return s }

func statusNames(v any) string { return fmt.Sprintf("%v", v) }

// checkControl is the C11 oracle: start/stop/wait act on the one live run and report its true result.
func (a *analysis) checkControl(x *verifkit.Exec) {
	open := map[string]int{} // connector -> currently open instances
	status := ""
	calls := map[int]verifkit.Event{}
	callLive, callStatus := map[int]bool{}, map[int]string{}
	startInFlight, startInFlightStatus := 0, ""
	failedBuildSeen := false
	lastStatusWriteFailed := false
	lastTeardownSeq, lastStatusAttemptSeq := -1, -1
	callSeq := map[int]int{}
	failedStartSeq, failedStartErr := -1, ""
	openAtEnd := -1 // connectors open when the history ends (before the harness winds the stack down)
	for _, e := range a.evs {
		if e.Comp == "end" && e.Kind == "status" && openAtEnd < 0 {
			openAtEnd = 0
			for _, n := range open {
				openAtEnd += n
			}
		}
		if (isSource(e.Comp) || isDest(e.Comp) || e.Comp == "dlq") && e.Kind == "teardown" {
			lastTeardownSeq = e.Seq
		}
		if e.Comp == "db" && (e.Kind == "put" || e.Kind == "putfail") && strings.HasPrefix(e.Arg, "pipeline:instance:") {
			lastStatusAttemptSeq = e.Seq
		}
		switch {
		case (isSource(e.Comp) || isDest(e.Comp) || e.Comp == "dlq") && e.Kind == "open":
			open[e.Comp]++
			limit := 1
			if e.Comp == "dlq" && a.p.Engine == "v2" && a.p.Sources > 1 {
				limit = a.p.Sources // the funnel engine opens one DLQ connector per source (they share the scripted plugin)
			}
			if open[e.Comp] > limit {
				key := "C11/two-runs-at-once"
				if startInFlight > 0 && startInFlightStatus == "Recovering" {
					// a Start issued by the user while the pipeline waits for its recovery restart runs concurrently with that restart
					key += "/user-start-races-recovery-restart/" + a.p.Engine
				}
				a.bad(key, "connector %s was opened while an earlier instance of it was still open: two runs of the pipeline exist at once (event #%d)", e.Comp, e.Seq)
			}
		case (isSource(e.Comp) || isDest(e.Comp) || e.Comp == "dlq") && e.Kind == "teardown":
			if open[e.Comp] > 0 {
				open[e.Comp]--
			}
		case e.Comp == "db" && e.Kind == "putfail" && strings.HasPrefix(e.Arg, "pipeline:instance:"):
			lastStatusWriteFailed = true // the store refused the status write: the stored status cannot agree with the run
		case e.Comp == "db" && e.Kind == "put" && strings.HasPrefix(e.Arg, "pipeline:instance:"):
			parts := strings.SplitN(e.Arg, "|", 2)
			if len(parts) == 2 {
				_, st, _ := stack.ParseDescribe(parts[1])
				if st != "" {
					status = st
					lastStatusWriteFailed = false
				}
			}
		case e.Comp == "ctl" && e.Kind == "call":
			calls[e.Seq] = e
			if k := strings.LastIndex(e.Arg, "#"); k >= 0 {
				n := 0
				fmt.Sscanf(e.Arg[k+1:], "%d", &n)
				live := false
				for _, c := range open {
					if c > 0 {
						live = true
					}
				}
				callLive[n], callStatus[n] = live, status
				callSeq[n] = e.Seq
				if strings.HasPrefix(e.Arg, "start#") {
					startInFlight, startInFlightStatus = n, status
				}
			}
		case e.Comp == "ctl" && e.Kind == "start.ret" && strings.Contains(e.Arg, "verif: plugin"):
			failedBuildSeen = true
		case e.Comp == "ctl" && strings.HasPrefix(e.Kind, "hist."):
			op := strings.TrimSuffix(strings.TrimPrefix(e.Kind, "hist."), ".ret")
			if op == "start" && e.Idx == startInFlight {
				startInFlight = 0
			}
			// what the call could observe spans from its issue to its return: judge it only when the relevant state was the
			// same at both ends (a call that overlaps the end of a run or a restart may legitimately see either)
			liveAtCall, statusAtCall := callLive[e.Idx], callStatus[e.Idx]
			res := strings.SplitN(e.Arg, "|status=", 2)
			memStatus := ""
			if len(res) == 2 {
				memStatus = res[1]
			}
			liveRun := false
			for _, n := range open {
				if n > 0 {
					liveRun = true
				}
			}
			switch op {
			case "stop", "stopwait", "force":
				if res[0] != "nil" && strings.Contains(res[0], "not running") && liveRun && (memStatus == "Running") && liveAtCall && statusAtCall == "Running" {
					a.bad("C11/stop-misses-live-run", "%s was refused (%s) although the pipeline is reported Running and its connectors are open: the call did not find the live run (event #%d)", op, res[0], e.Seq)
				}
				if op == "stopwait" && res[0] == "nil" && liveRun && a.healthy {
					a.bad("C11/stop-acted-on-another-run", "stop-and-wait returned nil but connectors of a run are still open (event #%d): it acted on an earlier run", e.Seq)
				}
			case "wait":
				if res[0] == "nil" && !liveRun && memStatus == "Degraded" && sourceOpens(a.evs, e.Seq) == 1 && !x.StepCapHit {
					// the pipeline has had exactly one run, that run failed (the pipeline is Degraded) and is over: WaitPipeline
					// reports the terminal result of the run it waited for, which is that failure
					a.bad("C11/wait-hides-the-failure-of-its-run", "WaitPipeline returned nil although the only run of the pipeline ended in failure (status Degraded, connectors closed) (event #%d)", e.Seq)
				}
				if res[0] == "nil" && liveRun && memStatus == "Running" && a.healthy && liveAtCall && statusAtCall == "Running" {
					a.bad("C11/wait-returned-for-another-run", "WaitPipeline returned nil while the pipeline is Running with open connectors (event #%d): it waited for an earlier run", e.Seq)
				}
			case "start":
				if res[0] != "nil" && !liveAtCall && !strings.Contains(res[0], "running") {
					failedStartSeq, failedStartErr = e.Seq, res[0]
				} else if res[0] == "nil" {
					failedStartSeq = -1
				}
				if res[0] != "nil" && strings.Contains(res[0], "running") && !liveRun && !liveAtCall && memStatus == "Running" &&
					lastTeardownSeq >= 0 && !x.StepCapHit && len(x.W.Pending()) == 0 && !statusWriteAfter(a.evs, callSeq[e.Idx]) {
					// the previous run (or start attempt) has ended: its connectors are closed and no status write of its
					// cleanup was still on its way when Start was called (none arrives later): the pipeline is not running,
					// whatever the status says
					a.bad("C11/start-refused-although-nothing-runs", "Start was refused (%s) and the pipeline is reported Running although the last run has ended (connectors closed at event #%d, last status write attempt at event #%d) and nothing runs (event #%d)", res[0], lastTeardownSeq, lastStatusAttemptSeq, e.Seq)
				}
				if res[0] != "nil" && !liveRun && memStatus != "Running" && memStatus != "Recovering" && a.healthy && !strings.Contains(res[0], "verif:") && !openFailedBetween(a.evs, callSeq[e.Idx], e.Seq) &&
					!liveAtCall && statusAtCall != "Running" && statusAtCall != "Recovering" {
					key := "C11/start-refused-after-run-ended"
					if strings.Contains(res[0], "processor already running") && failedBuildSeen {
						// an earlier Start failed while building its nodes (a plugin could not be dispensed) after it had
						// already reserved the pipeline's processors
						key += "/failed-start-leaks-processor-reservation/" + a.p.Engine
					}
					a.bad(key, "Start failed (%s) although no run is live (status %s): the previous run was not fully released (event #%d)", res[0], memStatus, e.Seq)
				}
			}
		}
	}
	// a Start that reports failure has not started anything: if the connectors it opened are still open when the history
	// ends (nothing else was asked of the pipeline afterwards), the caller was told the opposite of what happened
	if failedStartSeq >= 0 && !x.StepCapHit && len(x.W.Pending()) == 0 {
		stillOpen := openAtEnd > 0
		laterCall := false
		for _, e := range a.evs {
			if e.Comp == "ctl" && e.Kind == "call" && e.Seq > failedStartSeq {
				laterCall = true
			}
		}
		if stillOpen && !laterCall {
			a.bad("C11/start-reported-failure-but-left-a-live-run/"+a.p.Engine, "Start returned an error (%s, event #%d) but the run it started is alive: its connectors are still open when the history ends", failedStartErr, failedStartSeq)
		}
	}
	if len(a.p.Ctl) == 0 {
		return
	}
	// no wedge: every control call returned (all plugins and the store answered everything that was asked of them)
	if !x.StepCapHit && len(x.W.Pending()) == 0 {
		for _, c := range x.Controls {
			if c.Issued() && !c.ReturnedInTime() {
				if strings.HasPrefix(c.Name, "wait#") && waitMayBlock(x.W.Events()) {
					// a wait on a live run nobody (successfully) asked to stop legitimately blocks
					continue
				}
				a.bad("C11/control-call-never-returns", "control call %s never returned although every plugin and store request was answered (wedged)", c.Name)
			}
		}
	}
	// the stored status agrees with how the last run ended
	liveRun := false
	for _, n := range open {
		if n > 0 {
			liveRun = true
		}
	}
	if !x.StepCapHit && len(x.W.Pending()) == 0 && !lastStatusWriteFailed {
		if status == "Running" && !liveRun {
			a.bad("C11/status-running-without-run", "the stored status is Running but no connector of the pipeline is open: the status does not agree with how the last run ended")
		}
		if liveRun && status != "Running" && status != "Recovering" && status != "" {
			key := "C11/run-alive-but-status-stopped"
			if earlierRunStatusLandedLate(a.evs) {
				// the terminal status of an EARLIER (failed) run was written after a later Start had already stored Running
				key += "/status-of-earlier-run-lands-after-restart/" + a.p.Engine
			}
			a.bad(key, "connectors of a run are still open while the stored status is %s", status)
		}
	}
}

// earlierRunStatusLandedLate: after the last source open, the status went Running and then to a terminal status although
// no source was torn down in between - the terminal status cannot be the live run's.
func earlierRunStatusLandedLate(evs []verifkit.Event) bool {
	lastOpen := -1
	for _, e := range evs {
		if e.Comp == "end" {
			break
		}
		if isSource(e.Comp) && e.Kind == "open" {
			lastOpen = e.Seq
		}
	}
	running := false
	for _, e := range evs {
		if e.Comp == "end" {
			break
		}
		if e.Seq <= lastOpen {
			continue
		}
		if isSource(e.Comp) && e.Kind == "teardown" {
			return false
		}
		if e.Comp == "db" && e.Kind == "put" && strings.HasPrefix(e.Arg, "pipeline:instance:") {
			if parts := strings.SplitN(e.Arg, "|", 2); len(parts) == 2 {
				_, st, _ := stack.ParseDescribe(parts[1])
				if st == "Running" {
					running = true
				} else if running && (st == "Degraded" || st == "UserStopped" || st == "SystemStopped") {
					return true
				}
			}
		}
	}
	return false
}

// sourceOpens counts how often the first source was opened up to (and including) event seq.
func sourceOpens(evs []verifkit.Event, seq int) int {
	n := 0
	for _, e := range evs {
		if e.Seq > seq {
			break
		}
		if e.Comp == "s0" && e.Kind == "open" {
			n++
		}
	}
	return n
}

// waitMayBlock reports whether a WaitPipeline call is entitled to block at the end of the execution: a run is live (a
// source was opened and not torn down since) and no stop request returned nil since that run's connectors were opened.
func waitMayBlock(evs []verifkit.Event) bool {
	live, stopped := false, false
	isSrc := func(c string) bool { return len(c) == 2 && c[0] == 's' && c[1] >= '0' && c[1] <= '9' }
	for _, e := range evs {
		if e.Comp == "end" {
			break // wind-down of the harness follows
		}
		switch {
		case isSrc(e.Comp) && e.Kind == "open":
			live, stopped = true, false
		case isSrc(e.Comp) && e.Kind == "teardown":
			live = false
		case e.Comp == "ctl" && strings.HasPrefix(e.Kind, "hist.") && strings.HasPrefix(e.Arg, "nil|"):
			switch strings.TrimSuffix(strings.TrimPrefix(e.Kind, "hist."), ".ret") {
			case "stop", "force", "stopwait", "stopall":
				stopped = true
			}
		}
	}
	return live && !stopped
}

// checkReconf is the C13 oracle: a live processor reconfiguration takes effect at a record boundary.
func (a *analysis) checkReconf(x *verifkit.Exec) {
	if len(a.p.Reconf) == 0 {
		return
	}
	genNum := func(arg string) int {
		k := strings.Index(arg, "gen=g")
		if k < 0 {
			return -1
		}
		n := 0
		fmt.Sscanf(arg[k+5:], "%d", &n)
		return n
	}
	lastGen := map[string]int{}
	processedBy := map[recKey][]int{}
	deadRunAtCall := map[string]bool{}
	srcOpen := 0
	runEnding := false
	floor := 0       // generation every record processed from now on must at least have
	var floorSeq int // set when a reconfigure returned nil
	failedOnly := true
	for _, e := range a.evs {
		switch {
		case strings.HasPrefix(e.Comp, "proc:") && e.Kind == "in":
			g := genNum(e.Arg)
			src := strings.SplitN(e.Arg, "|", 2)[0]
			k := recKey{src, e.Idx}
			processedBy[k] = append(processedBy[k], g)
			if g < floor {
				a.bad("C13/old-configuration-after-switch", "record %d was processed by configuration g%d (event #%d) although a reconfigure to g%d had already returned successfully (event #%d)", e.Idx, g, e.Seq, floor, floorSeq)
			}
		case isDest(e.Comp) && e.Kind == "recv":
			g := genNum(e.Arg)
			if g >= 0 {
				if g < lastGen[e.Comp] {
					a.bad("C13/configurations-interleaved", "destination %s received record %d processed by g%d after a record processed by g%d (event #%d): the switch did not happen at one record boundary", e.Comp, e.Idx, g, lastGen[e.Comp], e.Seq)
				}
				lastGen[e.Comp] = g
			}
		case isSource(e.Comp) && e.Kind == "open":
			srcOpen++
			runEnding = false
		case isSource(e.Comp) && e.Kind == "teardown":
			srcOpen--
			runEnding = true
		case e.Kind == "teardown" || e.Kind == "openfail" || e.Kind == "runerr" || e.Kind == "readerr":
			runEnding = true // a node of the run has stopped or failed: the run is on its way out
		case e.Comp == "ctl" && e.Kind == "call" && strings.HasPrefix(e.Arg, "reconf"):
			deadRunAtCall[e.Arg] = srcOpen <= 0 || runEnding
		case e.Comp == "ctl" && (e.Kind == "reconfA.ret" || e.Kind == "reconfB.ret"):
			if e.Arg == "nil" {
				failedOnly = false
				g := 1
				if e.Kind == "reconfB.ret" {
					g = 2
				}
				if g > floor {
					floor, floorSeq = g, e.Seq
				}
			}
		}
	}
	_ = failedOnly
	// The caller gets the true result: a reconfigure request that returned an ERROR without having been cancelled by its
	// caller has not been applied - no record may be processed by its configuration afterwards (unless a later request
	// for it succeeded). A request cancelled by the caller may legitimately still complete (documented: the swap is not
	// withdrawn once the node claimed it). Judged only when the history holds ONE request: the lifecycle call carries no
	// configuration (it applies whatever is stored at that moment), so with two overlapping requests the one that
	// succeeds legitimately applies what the other one stored.
	singleRequest := 0
	for _, r := range a.p.Reconf {
		if r == "A" || r == "B" {
			singleRequest++
		}
	}
	for _, req := range []struct {
		name string
		gen  int
	}{{"A", 1}, {"B", 2}} {
		retSeq, okLater, cancelled := -1, false, false
		callSeq := -1
		for _, e := range a.evs {
			if e.Comp == "ctl" && e.Kind == "call" && e.Arg == "reconf"+req.name && callSeq < 0 {
				callSeq = e.Seq
			}
			switch {
			case e.Comp == "ctl" && e.Kind == "call" && strings.HasPrefix(e.Arg, "cancel"+req.name):
				if retSeq < 0 {
					cancelled = true
				}
			case e.Comp == "ctl" && e.Kind == "reconf"+req.name+".ret":
				if e.Arg == "nil" {
					okLater = true
				} else if retSeq < 0 {
					retSeq = e.Seq
				}
			case strings.HasPrefix(e.Comp, "proc:") && e.Kind == "in" && retSeq >= 0 && !okLater && !cancelled && len(a.p.Apply) == 0 && singleRequest == 1:
				// (a run that was (re)started after the request was issued built its processor from what the request had
				// already stored: that is a restart, not the live reconfigure taking effect)
				if genNum(e.Arg) == req.gen && !restartedBefore(a.evs, callSeq, e.Seq) && !openedByTheRunItself(a.evs, e.Comp, callSeq) {
					a.bad("C13/failed-reconfigure-took-effect", "the reconfigure request %s returned an error (event #%d) and was not cancelled by its caller, but record %d was then processed by its configuration g%d (event #%d): the caller was told the old configuration keeps running", req.name, retSeq, e.Idx, req.gen, e.Seq)
					retSeq = -2
				}
			}
		}
	}
	for k, gens := range processedBy {
		if len(gens) > 1 && !restarted(a.evs) {
			a.bad("C13/record-processed-twice", "record %d of %s was processed %d times (by configurations %v) within one run", k.idx, k.src, len(gens), gens)
		}
	}
	// every reconfigure request gets an answer while the plugins respond
	if !x.StepCapHit && len(x.W.Pending()) == 0 {
		for _, c := range x.Controls {
			if strings.HasPrefix(c.Name, "reconf") && c.Issued() && !c.ReturnedInTime() {
				if deadRunAtCall[c.Name] {
					// the request was issued while the run had already failed and the pipeline sat in the recovery back-off:
					// the dead run is still published, the request is staged on a processor node nobody runs any more
					a.bad("C13/reconfigure-on-dead-run-during-recovery-backoff/"+a.p.Engine, "the reconfigure request %s, issued while the failed run waits for its recovery restart, never returns (it is staged on the dead run's processor node)", c.Name)
					continue
				}
				a.bad("C13/reconfigure-never-returns", "the reconfigure request %s never returned although every plugin call was answered: the request was lost", c.Name)
			}
		}
	}
	// a request that failed because the new processor could not be opened leaves the old one running: covered by the
	// floor rule (no success -> floor stays) and by the data-path oracles (records keep flowing in order).
}

func restarted(evs []verifkit.Event) bool {
	n := 0
	for _, e := range evs {
		if isSource(e.Comp) && e.Kind == "open" {
			n++
		}
	}
	return n > 1
}

// checkApply is the C16 oracle: a live apply loses nothing and never applies a stale plan.
func (a *analysis) checkApply(x *verifkit.Exec) {
	if len(a.p.Apply) == 0 {
		return
	}
	genOf := func(arg string) string {
		k := strings.Index(arg, "gen=")
		if k < 0 {
			return ""
		}
		return strings.SplitN(arg[k+4:], "|", 2)[0]
	}
	storedGen := map[string]string{} // processor id -> generation the STORED configuration holds
	for _, pr := range a.p.Procs {
		storedGen[pr.ID] = "g0"
	}
	type applied struct {
		idx, beginSeq, retSeq int
		base, stored          string
	}
	var okApplies []applied
	beginOf := map[int]verifkit.Event{}
	applying := 0
	openFailsDuring := 0
	rollbackReopenFailed := false
	failedWhileRecovering := false
	overlapped := false
	opensDuring, teardownsDuring := 0, 0
	var begin verifkit.Event
	settled := true               // false while an apply is in flight (the switch happens somewhere inside)
	liveSources := 0              // source connectors currently open (a run exists)
	liveAtBegin := map[int]bool{} // ... when apply #k was submitted
	oldConfigOpenFailed := false  // a processor failed to open a configuration that is NOT the one an apply introduces
	for _, e := range a.evs {
		if isSource(e.Comp) && e.Kind == "open" {
			liveSources++
		}
		if isSource(e.Comp) && e.Kind == "teardown" && liveSources > 0 {
			liveSources--
		}
		if strings.HasPrefix(e.Comp, "proc:") && e.Kind == "openfail" && (e.Arg == "g0" || e.Arg == "") {
			oldConfigOpenFailed = true
		}
		if e.Comp == "ctl" && e.Kind == "apply.begin" {
			liveAtBegin[e.Idx] = liveSources > 0
		}
		switch {
		case e.Comp == "ctl" && e.Kind == "apply.begin":
			applying++
			if applying > 1 {
				overlapped = true // two applies in flight: opens / teardowns cannot be attributed to one of them
			}
			settled = false
			begin = e
			beginOf[e.Idx] = e
			openFailsDuring = 0
			opensDuring, teardownsDuring = 0, 0
		case strings.HasPrefix(e.Comp, "proc:") && e.Kind == "openfail" && applying > 0:
			openFailsDuring++
		case (isSource(e.Comp) || isDest(e.Comp)) && e.Kind == "open" && applying > 0:
			opensDuring++
		case (isSource(e.Comp) || isDest(e.Comp)) && e.Kind == "teardown" && applying > 0:
			teardownsDuring++
		case e.Comp == "ctl" && e.Kind == "apply.ret":
			applying--
			wasOverlapped := overlapped
			if applying == 0 {
				settled = true
				overlapped = false
			}
			f := strings.Split(e.Arg, "|")
			errText := f[0]
			stored := ""
			for _, kv := range f {
				if strings.HasPrefix(kv, "stored=") {
					stored = kv[7:]
				}
			}
			spec := ""
			if e.Idx-1 < len(a.p.Apply) && e.Idx >= 1 {
				spec = a.p.Apply[e.Idx-1]
			}
			for _, kv := range strings.Split(stored, ",") {
				if i := strings.Index(kv, "="); i > 0 && !strings.Contains(kv[:i], ".") && kv[:i] != "desc" {
					storedGen[kv[:i]] = kv[i+1:]
				}
			}
			rollbackReopenFailed = errText != "nil" && openFailsDuring >= 2
			failedWhileRecovering = errText != "nil" && statusAt(a.evs, beginOf[e.Idx].Seq) == "Recovering"
			if errText == "nil" {
				b := beginOf[e.Idx]
				base := ""
				if k := strings.Index(b.Arg, "|base="); k >= 0 {
					base = b.Arg[k+6:]
				}
				okApplies = append(okApplies, applied{idx: e.Idx, beginSeq: b.Seq, retSeq: e.Seq, base: base, stored: stored})
			}
			refused := strings.Contains(errText, "stale") || strings.Contains(errText, "requires operator authorization")
			if strings.Contains(spec, "+stale") && !strings.Contains(errText, "stale") {
				a.bad("C16/stale-plan-applied", "the state changed between plan and apply but ApplyPlanLive did not refuse the plan as stale (returned %q) (event #%d)", errText, e.Seq)
			}
			if strings.Contains(spec, "+noauth") && !strings.Contains(spec, "+stale") && errText == "nil" && begin.Seq > 0 && (wasRunningAt(a.evs, begin.Seq) || statusAt(a.evs, begin.Seq) == "Recovering") {
				a.bad("C16/running-pipeline-touched-without-authorisation", "a running pipeline was changed by a live apply without operator authorisation (event #%d)", e.Seq)
			}
			kindOfApply := applyKind(a.p.Apply, e.Idx)
			quiet := a.p.Stop == "" && len(a.p.Ctl) == 0 && !a.p.Faults && len(a.p.ReadMenu) == 0 && len(a.p.Blocked) == 0 && a.p.healthyMenus()
			if (kindOfApply == "conn" || kindOfApply == "dlqthresh") && errText == "nil" && !wasOverlapped && quiet && statusAt(a.evs, beginOf[e.Idx].Seq) == "Running" && liveAtBegin[e.Idx] && teardownsDuring == 0 {
				// only processor-only changes may be applied in place; everything else touches a running pipeline only after it
				// has fully drained (its connectors are torn down) and is started again afterwards
				a.bad("C16/running-pipeline-changed-without-drain", "apply #%d (%s) changed more than a processor's configuration of a RUNNING pipeline and returned nil (mode %s), but no connector was torn down during it: the pipeline was not drained and restarted, the running nodes keep the previous configuration (event #%d)", e.Idx, kindOfApply, modeOf(f), e.Seq)
			}
			if (kindOfApply == "proc" || kindOfApply == "procbad" || kindOfApply == "twoprocs") && a.p.Engine == "v1" && a.singleWorkerProcs() && errText != "nil" && !refused && !wasOverlapped && quiet && !oldConfigOpenFailed &&
				statusAt(a.evs, beginOf[e.Idx].Seq) == "Running" && liveAtBegin[e.Idx] {
				// an in-place (processor-only) change whose new configuration cannot be built or opened: the old one keeps running
				st := ""
				for _, kv := range f {
					if strings.HasPrefix(kv, "status=") {
						st = kv[7:]
					}
				}
				base := ""
				if k := strings.Index(beginOf[e.Idx].Arg, "|base="); k >= 0 {
					base = beginOf[e.Idx].Arg[k+6:]
				}
				if st != "Running" || teardownsDuring > 0 {
					a.bad("C13/pipeline-stopped-by-a-failed-live-edit", "the processor-only apply #%d failed (%s) and the pipeline, Running before, is now %s (%d connector teardowns during the apply): the old configuration does not keep running (event #%d)", e.Idx, errText, st, teardownsDuring, e.Seq)
				}
				if stored != "" && base != "" && stored != base {
					a.bad("C13/failed-live-edit-left-its-configuration-stored", "the processor-only apply #%d failed (%s) but the stored configuration changed from %q to %q (event #%d)", e.Idx, errText, base, stored, e.Seq)
				}
			}
			if refused {
				if opensDuring+teardownsDuring > 0 && !wasOverlapped {
					a.bad("C16/refused-apply-touched-the-run", "the apply was refused (%s) but connectors were opened/torn down during it (%d/%d)", errText, opensDuring, teardownsDuring)
				}
				g := fmt.Sprintf("g%d", e.Idx)
				if strings.Contains(stored, "="+g) {
					a.bad("C16/refused-apply-changed-config", "the apply was refused (%s) but the stored configuration now holds %s", errText, stored)
				}
			}
		case strings.HasPrefix(e.Comp, "proc:") && e.Kind == "in" && settled:
			// a record processed while no apply is in flight must be processed by what the stored configuration says
			name := strings.SplitN(strings.TrimPrefix(e.Comp, "proc:"), "#", 2)[0]
			if want, ok := storedGen[name]; ok && genOf(e.Arg) != "" && genOf(e.Arg) != want {
				key := "C16/running-config-differs-from-stored"
				if failedWhileRecovering {
					// the apply was submitted while the pipeline sat in its recovery back-off: the automatic restart built its
					// nodes from the stored configuration in the middle of the (later rolled back) apply
					key += "/apply-raced-recovery-restart"
				} else if rollbackReopenFailed {
					// the in-place apply failed (a new processor could not be opened) AND the roll-back could not re-open the
					// previous configuration of a processor that had already been swapped
					key += "/rollback-reopen-failed"
				}
				a.bad(key, "record %d was processed by processor %s with configuration %s while the stored configuration says %s (event #%d): after the apply the running pipeline and the stored configuration disagree", e.Idx, name, genOf(e.Arg), want, e.Seq)
			}
		}
	}
	// a plan computed against a configuration that another (successful) apply replaced in the meantime is stale: applies of
	// one pipeline are serialised, so if apply i returned between j's planning and j's return, j ran after i
	for _, j := range okApplies {
		for _, i := range okApplies {
			if i.idx != j.idx && i.retSeq > j.beginSeq && i.retSeq < j.retSeq && i.stored != j.base && i.stored != "" && j.base != "" {
				key := "C16/stale-plan-applied"
				if ki, kj := applyKind(a.p.Apply, i.idx), applyKind(a.p.Apply, j.idx); ki == kj && ki != "" {
					// both applies change the SAME fields (to different values): the plan hash covers the changed paths and the
					// new values, not the values being replaced
					key += "/same-fields-changed-by-both-applies"
				}
				a.bad(key, "apply #%d was planned against the stored configuration %q; apply #%d then changed it to %q and returned (event #%d), yet apply #%d was not refused as stale and returned nil (event #%d)", j.idx, j.base, i.idx, i.stored, i.retSeq, j.idx, j.retSeq)
			}
		}
	}
	if !x.StepCapHit && len(x.W.Pending()) == 0 {
		for _, c := range x.Controls {
			if strings.HasPrefix(c.Name, "apply#") && c.Issued() && !c.ReturnedInTime() {
				a.bad("C16/apply-never-returns", "the live apply %s never returned although every plugin and store request was answered", c.Name)
			}
		}
	}
}

// checkWindow binds the DLQ nack window to what the pipeline does (C07), for the shape where the outcome sequence is
// unambiguous: one source, one destination, no processor, a window configured. Per run, the destination's outcomes in
// record order feed the reference window; a tolerated rejection must reach the DLQ, a refused one must neither reach
// the DLQ nor be acknowledged.
// checkUnlimitedWindow: with a window size of zero every rejection is tolerated. When nothing but rejections happens (all
// plugins answer, the DLQ accepts everything, nobody stops the pipeline), every record the DLQ confirmed is acknowledged
// to its source and the pipeline keeps running - whatever the topology.
func (a *analysis) checkUnlimitedWindow(x *verifkit.Exec) {
	p := a.p
	if p.Window != 0 || p.Thresh != 0 || p.Stop != "" || len(p.Ctl) > 0 || len(p.Apply) > 0 || len(p.Reconf) > 0 || p.Faults || len(p.ReadMenu) > 0 ||
		len(p.Blocked) > 0 || p.GateDestOpen || p.GateDLQOpen || len(p.GateSrcOpen) > 0 || p.SrcPositions != "" || len(p.FailDispense) > 0 || x.StepCapHit || len(x.W.Pending()) > 0 {
		return
	}
	for _, m := range append(append([]string{}, p.AckMenu...), p.DLQMenu...) {
		if m != "ok" && m != "nack" && !strings.HasPrefix(m, "n:") {
			return
		}
	}
	for _, m := range p.DLQMenu {
		if m != "ok" {
			return
		}
	}
	for _, pr := range p.Procs {
		for _, k := range pr.Kinds {
			if k != "p" && k != "e" && k != "f" && k != "" {
				return
			}
		}
	}
	final := ""
	dlqAcked := map[recKey]int{}
	srcAcked := map[recKey]bool{}
	for _, e := range a.evs {
		switch {
		case e.Comp == "end" && e.Kind == "status":
			final = strings.SplitN(e.Arg, "|", 2)[0]
		case e.Comp == "dlq" && e.Kind == "ack" && final == "":
			dlqAcked[recKey{strings.SplitN(e.Arg, "|", 2)[0], e.Idx}] = e.Seq
		case isSource(e.Comp) && e.Kind == "ack" && final == "":
			srcAcked[recKey{e.Comp, e.Idx}] = true
		}
	}
	if final != "" && final != "Running" {
		a.bad("C07/pipeline-stopped-although-every-rejection-is-tolerated/"+p.Engine, "the nack window is unlimited (size 0), every plugin and the DLQ answered, nobody stopped the pipeline, yet it ended %s", final)
	}
	for k, seq := range dlqAcked {
		if !srcAcked[k] && final == "Running" {
			a.bad("C07/dead-lettered-record-not-acknowledged/"+p.Engine, "record %d of %s was confirmed by the DLQ (event #%d) but never acknowledged to its source although the pipeline kept running", k.idx, k.src, seq)
		}
	}
}

// checkNothingRejected: when no plugin rejects or fails anything (destinations confirm, processors pass every record,
// nobody stops the pipeline) no record may end up in the DLQ: a record that only passes through - e.g. because the
// processor's condition does not match it - stays in its place and is delivered.
func (a *analysis) checkNothingRejected(x *verifkit.Exec) {
	p := a.p
	if p.Stop != "" || len(p.Ctl) > 0 || len(p.Apply) > 0 || len(p.Reconf) > 0 || p.Faults || len(p.ReadMenu) > 0 || len(p.Blocked) > 0 ||
		p.GateDestOpen || p.GateDLQOpen || len(p.GateSrcOpen) > 0 || p.SrcPositions != "" || len(p.FailDispense) > 0 || len(p.AckScript) > 0 || len(p.Reject) > 0 {
		return
	}
	for _, m := range p.AckMenu {
		if m != "ok" && m != "defer" {
			return
		}
	}
	for _, pr := range p.Procs {
		for _, k := range pr.Kinds {
			if k != "p" && k != "" {
				return
			}
		}
	}
	for _, e := range a.evs {
		if e.Comp == "end" {
			break
		}
		if e.Comp == "dlq" && e.Kind == "recv" {
			a.bad("C09/record-dead-lettered-although-nothing-rejected-it/"+p.Engine, "record %d was written to the DLQ (event #%d: %s) although every destination confirms, every processor passes every record and nobody stopped the pipeline", e.Idx, e.Seq, e.Arg)
			return
		}
	}
}

func (a *analysis) checkWindow() {
	p := a.p
	if p.Window <= 0 || p.Sources != 1 || p.Dests != 1 || len(p.Procs) > 0 || p.Batch != 1 {
		return
	}
	ref := verifkit.NewDLQRef(p.Window, p.Thresh)
	refused := map[int]bool{}
	tolerated := map[int]bool{}
	for _, e := range a.evs {
		if e.Comp == "end" {
			break
		}
		switch {
		case isSource(e.Comp) && e.Kind == "open":
			ref = verifkit.NewDLQRef(p.Window, p.Thresh) // a new run starts with a fresh window
			refused, tolerated = map[int]bool{}, map[int]bool{}
		case e.Comp == "d0" && e.Kind == "ack":
			ref.Ack()
		case e.Comp == "d0" && e.Kind == "nack":
			if ref.Nack() {
				tolerated[e.Idx] = true
			} else {
				refused[e.Idx] = true
			}
		case e.Comp == "dlq" && e.Kind == "recv" && refused[e.Idx]:
			a.bad("C07/refused-rejection-dead-lettered/"+p.Engine, "record %d was rejected although the nack window (size %d, threshold %d) was already exhausted, yet it was written to the DLQ (event #%d): the pipeline should have stopped", e.Idx, p.Window, p.Thresh, e.Seq)
		case isSource(e.Comp) && e.Kind == "ack" && refused[e.Idx]:
			a.bad("C07/refused-rejection-acknowledged/"+p.Engine, "record %d was rejected with the nack window (size %d, threshold %d) exhausted, yet it was acknowledged to the source (event #%d)", e.Idx, p.Window, p.Thresh, e.Seq)
		case isSource(e.Comp) && e.Kind == "ack" && tolerated[e.Idx]:
			delete(tolerated, e.Idx)
		}
	}
}

// allPipelineLevel: every processor of the scenario sits on the pipeline (none on a single destination's branch), so a
// record one of them filters may reach no destination at all.
func allPipelineLevel(p flowParams) bool {
	for _, pr := range p.Procs {
		if pr.Parent != "" {
			return false
		}
	}
	return len(p.Procs) > 0
}

// wantPath is the processing path every record delivered to destination dest must carry: the pipeline-level processors in
// order followed by that destination's own processors. Returns "" when the scenario has a processor whose results make
// the path undetermined (conditions, live reconfiguration, applies).
func wantPath(p flowParams, dest string) string {
	if len(p.Procs) == 0 || len(p.Reconf) > 0 || len(p.Apply) > 0 {
		return ""
	}
	path, tail := "", ""
	for _, pr := range p.Procs {
		if pr.Cond != "" {
			return ""
		}
		switch pr.Parent {
		case "":
			path += pr.ID + ","
		case dest:
			tail += pr.ID + ","
		}
	}
	return path + tail
}

// statusAt returns the stored pipeline status at event seq.
func statusAt(evs []verifkit.Event, seq int) string {
	status := ""
	for _, e := range evs {
		if e.Seq > seq {
			break
		}
		if e.Comp == "db" && e.Kind == "put" && strings.HasPrefix(e.Arg, "pipeline:instance:") {
			if parts := strings.SplitN(e.Arg, "|", 2); len(parts) == 2 {
				if _, st, _ := stack.ParseDescribe(parts[1]); st != "" {
					status = st
				}
			}
		}
	}
	return status
}

func wasRunningAt(evs []verifkit.Event, seq int) bool {
	status := ""
	for _, e := range evs {
		if e.Seq > seq {
			break
		}
		if e.Comp == "db" && e.Kind == "put" && strings.HasPrefix(e.Arg, "pipeline:instance:") {
			if parts := strings.SplitN(e.Arg, "|", 2); len(parts) == 2 {
				if _, st, _ := stack.ParseDescribe(parts[1]); st != "" {
					status = st
				}
			}
		}
	}
	return status == "Running"
}
