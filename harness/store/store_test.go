//go:build verif

// Package verifstore: C17 - whatever is stored for a pipeline, connector or processor is read back identically by a
// restarted server. Bounded-exhaustive enumeration of field values through the REAL services and stores; the
// "restart" is a fresh set of services initialised from a copy of the store content.
package verifstore

import (
	"bytes"
	"context"
	"encoding/json"
	"fmt"
	"os"
	"path/filepath"
	"reflect"
	"sort"
	"strings"
	"testing"
	"time"

	"github.com/conduitio/conduit-commons/opencdc"
	"github.com/conduitio/conduit/pkg/connector"
	"github.com/conduitio/conduit/pkg/foundation/log"
	"github.com/conduitio/conduit/pkg/pipeline"
	connectorPlugin "github.com/conduitio/conduit/pkg/plugin/connector"
	"github.com/conduitio/conduit/pkg/processor"
	"github.com/conduitio/conduit/pkg/verifkit"
	"github.com/conduitio/conduit/pkg/verifkit/fakes"
)

type services struct {
	db   *verifkit.VDB
	pl   *pipeline.Service
	conn *connector.Service
	proc *processor.Service
}

func boot(values map[string][]byte) (*services, error) {
	ctx := context.Background()
	s := &services{}
	if values == nil {
		s.db = verifkit.NewVDB(nil)
	} else {
		s.db = verifkit.NewVDBFrom(nil, values)
	}
	w := verifkit.NewWorld()
	procs := fakes.NewProcs(w)
	for _, n := range strAlphabet {
		if n != "" {
			procs.Add(fakes.ProcScript{Name: n})
		}
	}
	procs.Add(fakes.ProcScript{Name: "proc"})
	logger := log.Nop()
	s.pl = pipeline.NewService(logger, s.db)
	s.conn = connector.NewService(logger, s.db, connector.NewPersister(logger, s.db, time.Hour, 1<<30))
	s.proc = processor.NewService(logger, s.db, procs)
	if err := s.pl.Init(ctx); err != nil {
		return nil, fmt.Errorf("pipeline init: %w", err)
	}
	if err := s.conn.Init(ctx); err != nil {
		return nil, fmt.Errorf("connector init: %w", err)
	}
	if err := s.proc.Init(ctx); err != nil {
		return nil, fmt.Errorf("processor init: %w", err)
	}
	return s, nil
}

// strAlphabet is the Unicode class alphabet for text fields (all valid UTF-8: "any Unicode text").
var strAlphabet = []string{
	"", "a", "A b", "\x00", "\"", "'", "\\", "\n\t\r", "\u00e9", "\u65e5\u672c\u8a9e", "\u202egnp.exe", "\U0001F600", "\ufffd", "\ufeffbom", "\U0010FFFF", "a\x00b", "{\"k\":1}", "<>&", "  ",
	strings.Repeat("x", 70000),
}

func eqTime(a, b time.Time) bool { return a.Equal(b) }

// comparePipeline returns the differences between what was stored and what a restarted server reports.
func comparePipeline(a, b *pipeline.Instance) []string {
	var d []string
	chk := func(name string, x, y any) {
		if !reflect.DeepEqual(x, y) {
			d = append(d, fmt.Sprintf("%s: stored %#v, read back %#v", name, x, y))
		}
	}
	chk("ID", a.ID, b.ID)
	chk("Config", a.Config, b.Config)
	chk("Error", a.Error, b.Error)
	chk("ProvisionedBy", a.ProvisionedBy, b.ProvisionedBy)
	chk("DLQ", a.DLQ, b.DLQ)
	chk("ConnectorIDs", a.ConnectorIDs, b.ConnectorIDs)
	chk("ProcessorIDs", a.ProcessorIDs, b.ProcessorIDs)
	if !eqTime(a.CreatedAt, b.CreatedAt) || !eqTime(a.UpdatedAt, b.UpdatedAt) {
		d = append(d, fmt.Sprintf("timestamps: stored %v/%v read back %v/%v", a.CreatedAt, a.UpdatedAt, b.CreatedAt, b.UpdatedAt))
	}
	want := a.GetStatus()
	if want == pipeline.StatusRunning {
		want = pipeline.StatusSystemStopped // a running pipeline is found again as one to be resumed
	}
	if b.GetStatus() != want {
		d = append(d, fmt.Sprintf("status: stored %s, read back %s (expected %s)", a.GetStatus(), b.GetStatus(), want))
	}
	return d
}

func compareConnector(a, b *connector.Instance) []string {
	var d []string
	chk := func(name string, x, y any) {
		if !reflect.DeepEqual(x, y) {
			d = append(d, fmt.Sprintf("%s: stored %#v, read back %#v", name, x, y))
		}
	}
	chk("ID", a.ID, b.ID)
	chk("Type", a.Type, b.Type)
	chk("Config", a.Config, b.Config)
	chk("PipelineID", a.PipelineID, b.PipelineID)
	chk("Plugin", a.Plugin, b.Plugin)
	chk("ProcessorIDs", a.ProcessorIDs, b.ProcessorIDs)
	chk("State", a.State, b.State)
	chk("ProvisionedBy", a.ProvisionedBy, b.ProvisionedBy)
	chk("LastActiveConfig", a.LastActiveConfig, b.LastActiveConfig)
	if !eqTime(a.CreatedAt, b.CreatedAt) || !eqTime(a.UpdatedAt, b.UpdatedAt) {
		d = append(d, "timestamps differ")
	}
	return d
}

func compareProcessor(a, b *processor.Instance) []string {
	var d []string
	chk := func(name string, x, y any) {
		if !reflect.DeepEqual(x, y) {
			d = append(d, fmt.Sprintf("%s: stored %#v, read back %#v", name, x, y))
		}
	}
	chk("ID", a.ID, b.ID)
	chk("Plugin", a.Plugin, b.Plugin)
	chk("Parent", a.Parent, b.Parent)
	chk("Config", a.Config, b.Config)
	chk("Condition", a.Condition, b.Condition)
	chk("ProvisionedBy", a.ProvisionedBy, b.ProvisionedBy)
	if !eqTime(a.CreatedAt, b.CreatedAt) || !eqTime(a.UpdatedAt, b.UpdatedAt) {
		d = append(d, "timestamps differ")
	}
	return d
}

// restartAndCompare boots fresh services from the store content and compares every entity.
// noPlugins is a plugin dispenser fetcher without plugins (deleting a connector then only logs that it could not run
// the plugin's delete hook).
type noPlugins struct{}

func (noPlugins) NewDispenser(log.CtxLogger, string, string) (connectorPlugin.Dispenser, error) {
	return nil, fmt.Errorf("verif: no plugins")
}

func restartAndCompare(s *services) ([]string, error) {
	ctx := context.Background()
	r, err := boot(s.db.Content())
	if err != nil {
		return nil, err
	}
	var diffs []string
	old, neu := s.pl.List(ctx), r.pl.List(ctx)
	if len(old) != len(neu) {
		diffs = append(diffs, fmt.Sprintf("pipelines: %d stored, %d read back", len(old), len(neu)))
	}
	for id, a := range old {
		if b, ok := neu[id]; ok {
			for _, x := range comparePipeline(a, b) {
				diffs = append(diffs, "pipeline "+id+" "+x)
			}
		} else {
			diffs = append(diffs, "pipeline "+id+" missing after restart")
		}
	}
	oc, nc := s.conn.List(ctx), r.conn.List(ctx)
	if len(oc) != len(nc) {
		diffs = append(diffs, fmt.Sprintf("connectors: %d stored, %d read back", len(oc), len(nc)))
	}
	for id, a := range oc {
		if b, ok := nc[id]; ok {
			for _, x := range compareConnector(a, b) {
				diffs = append(diffs, "connector "+id+" "+x)
			}
		} else {
			diffs = append(diffs, "connector "+id+" missing after restart")
		}
	}
	op, np := s.proc.List(ctx), r.proc.List(ctx)
	if len(op) != len(np) {
		diffs = append(diffs, fmt.Sprintf("processors: %d stored, %d read back", len(op), len(np)))
	}
	for id, a := range op {
		if b, ok := np[id]; ok {
			for _, x := range compareProcessor(a, b) {
				diffs = append(diffs, "processor "+id+" "+x)
			}
		} else {
			diffs = append(diffs, "processor "+id+" missing after restart")
		}
	}
	sort.Strings(diffs)
	return diffs, nil
}

func short(s string) string {
	if len(s) > 40 {
		return fmt.Sprintf("%q...(%d bytes)", s[:20], len(s))
	}
	return fmt.Sprintf("%q", s)
}

func newReport(t *testing.T, part string) (*verifkit.Report, func()) {
	rep := verifkit.NewReport("C17", part)
	return rep, func() {
		if err := rep.Write(); err != nil {
			t.Fatal(err)
		}
		if rep.Violations() > 0 {
			t.Fail()
		}
	}
}

// TestVerifC17Positions: every byte string of length <=2 (quick) / <=3 (thorough) as a source position, nil and empty.
func TestVerifC17Positions(t *testing.T) {
	rep, done := newReport(t, "positions")
	defer done()
	ctx := context.Background()
	s, err := boot(nil)
	if err != nil {
		t.Fatal(err)
	}
	if _, err := s.pl.Create(ctx, "pl", pipeline.Config{Name: "p"}, pipeline.ProvisionTypeAPI); err != nil {
		t.Fatal(err)
	}
	if _, err := s.conn.Create(ctx, "src", connector.TypeSource, "plug", "pl", connector.Config{Name: "n", Settings: map[string]string{}}, connector.ProvisionTypeAPI); err != nil {
		t.Fatal(err)
	}
	if _, err := s.conn.Create(ctx, "dst", connector.TypeDestination, "plug", "pl", connector.Config{Name: "n2", Settings: map[string]string{}}, connector.ProvisionTypeAPI); err != nil {
		t.Fatal(err)
	}
	maxLen := 2
	if verifkit.Thorough() {
		maxLen = 3
	}
	shard, n := verifkit.Shard()
	rep.Bound("position_bytes_max_len", maxLen)
	check := func(pos opencdc.Position, idx int) {
		rep.Eval()
		if _, err := s.conn.SetState(ctx, "src", connector.SourceState{Position: pos}); err != nil {
			rep.AddViolation(verifkit.Violation{Key: "C17/position-not-storable", Text: fmt.Sprintf("SetState(%x): %v", []byte(pos), err), Replay: map[string]any{"position_hex": fmt.Sprintf("%x", []byte(pos))}})
			return
		}
		back, err := connector.NewStore(verifkit.NewVDBFrom(nil, s.db.Content()), log.Nop()).Get(ctx, "src")
		if err != nil {
			rep.AddViolation(verifkit.Violation{Key: "C17/position-not-loadable", Text: fmt.Sprintf("position %x: %v", []byte(pos), err), Replay: map[string]any{"position_hex": fmt.Sprintf("%x", []byte(pos))}})
			return
		}
		got, _ := back.State.(connector.SourceState)
		same := bytes.Equal(got.Position, pos) && (got.Position == nil) == (pos == nil)
		if !same {
			rep.AddViolation(verifkit.Violation{Key: "C17/position-changed", Text: fmt.Sprintf("stored position %#v was read back as %#v", []byte(pos), []byte(got.Position)), Replay: map[string]any{"position_hex": fmt.Sprintf("%x", []byte(pos)), "nil": pos == nil}})
		}
		if idx%4099 == 1 {
			rep.Sample(map[string]any{"position_hex": fmt.Sprintf("%x", []byte(pos)), "read_back_hex": fmt.Sprintf("%x", []byte(got.Position))})
		}
		if idx%7919 == 3 { // periodically the full restart path too
			if diffs, err := restartAndCompare(s); err != nil || len(diffs) > 0 {
				rep.AddViolation(verifkit.Violation{Key: "C17/restart-differs", Text: fmt.Sprintf("position %x: %v %v", []byte(pos), err, diffs), Replay: map[string]any{"position_hex": fmt.Sprintf("%x", []byte(pos))}})
			}
			rep.Trace()
		}
	}
	idx := 0
	var gen func(cur []byte)
	gen = func(cur []byte) {
		idx++
		if idx%n == shard {
			check(append(opencdc.Position{}, cur...), idx)
		}
		if len(cur) == maxLen {
			return
		}
		for b := 0; b < 256; b++ {
			gen(append(cur, byte(b)))
		}
	}
	gen(nil)
	if shard == 0 {
		check(nil, -1)
		check(opencdc.Position(bytes.Repeat([]byte{0xff, 0x00, 0x7f}, 400000)), -2)
		check(opencdc.Position(`{"Position":"x"}`), -3)
		// destination state: positions per source id
		for i, k := range strAlphabet {
			st := connector.DestinationState{Positions: map[string]opencdc.Position{k: opencdc.Position(k), "other": nil}}
			if k == "" {
				st = connector.DestinationState{Positions: nil}
			}
			rep.Eval()
			if _, err := s.conn.SetState(ctx, "dst", st); err != nil {
				continue
			}
			diffs, err := restartAndCompare(s)
			rep.Trace()
			if err != nil || len(diffs) > 0 {
				rep.AddViolation(verifkit.Violation{Key: "C17/destination-state-changed", Text: fmt.Sprintf("destination state with key %s: %v %v", short(k), err, diffs), Replay: map[string]any{"alphabet_index": i}})
			}
		}
	}
	rep.Transitions(int64(idx))
	rep.State(fmt.Sprintf("positions<=%d shard %d", maxLen, shard))
	rep.State("destination-states")
	rep.Outcome("roundtrip")
	rep.Outcome("restart")
}

// TestVerifC17Fields: every text field x the Unicode alphabet, nil/empty collections, every enum value, reference orders.
func TestVerifC17Fields(t *testing.T) {
	rep, done := newReport(t, "fields")
	defer done()
	ctx := context.Background()
	type fieldCase struct {
		name  string
		build func(s *services, v string) error
	}
	mk := func(s *services) error {
		if _, err := s.pl.Create(ctx, "pl", pipeline.Config{Name: "p", Description: "d"}, pipeline.ProvisionTypeAPI); err != nil {
			return err
		}
		if _, err := s.conn.Create(ctx, "c1", connector.TypeSource, "plug", "pl", connector.Config{Name: "n", Settings: map[string]string{"k": "v"}}, connector.ProvisionTypeAPI); err != nil {
			return err
		}
		_, err := s.pl.AddConnector(ctx, "pl", "c1")
		return err
	}
	cases := []fieldCase{
		{"pipeline.name", func(s *services, v string) error {
			_, err := s.pl.Update(ctx, "pl", pipeline.Config{Name: v, Description: "d"})
			return err
		}},
		{"pipeline.description", func(s *services, v string) error {
			_, err := s.pl.Update(ctx, "pl", pipeline.Config{Name: "p", Description: v})
			return err
		}},
		{"pipeline.error", func(s *services, v string) error { return s.pl.UpdateStatus(ctx, "pl", pipeline.StatusDegraded, v) }},
		{"pipeline.dlq.plugin", func(s *services, v string) error {
			_, err := s.pl.UpdateDLQ(ctx, "pl", pipeline.DLQ{Plugin: v, Settings: map[string]string{}, WindowSize: 2, WindowNackThreshold: 1})
			return err
		}},
		{"pipeline.dlq.settings.key", func(s *services, v string) error {
			_, err := s.pl.UpdateDLQ(ctx, "pl", pipeline.DLQ{Plugin: "x", Settings: map[string]string{v: "1"}})
			return err
		}},
		{"pipeline.dlq.settings.value", func(s *services, v string) error {
			_, err := s.pl.UpdateDLQ(ctx, "pl", pipeline.DLQ{Plugin: "x", Settings: map[string]string{"k": v}})
			return err
		}},
		{"connector.name", func(s *services, v string) error {
			_, err := s.conn.Update(ctx, "c1", "plug", connector.Config{Name: v, Settings: map[string]string{}})
			return err
		}},
		{"connector.plugin", func(s *services, v string) error {
			_, err := s.conn.Update(ctx, "c1", v, connector.Config{Name: "n", Settings: map[string]string{}})
			return err
		}},
		{"connector.settings.key", func(s *services, v string) error {
			_, err := s.conn.Update(ctx, "c1", "plug", connector.Config{Name: "n", Settings: map[string]string{v: "1"}})
			return err
		}},
		{"connector.settings.value", func(s *services, v string) error {
			_, err := s.conn.Update(ctx, "c1", "plug", connector.Config{Name: "n", Settings: map[string]string{"k": v}})
			return err
		}},
		{"connector.create.name+plugin", func(s *services, v string) error {
			_, err := s.conn.Create(ctx, "c2", connector.TypeDestination, v, "pl", connector.Config{Name: v, Settings: map[string]string{v: v}}, connector.ProvisionTypeConfig)
			return err
		}},
		{"processor.plugin+settings+condition", func(s *services, v string) error {
			_, err := s.proc.Create(ctx, "r1", v, processor.Parent{ID: "pl", Type: processor.ParentTypePipeline}, processor.Config{Settings: map[string]string{v: v}, Workers: 3}, processor.ProvisionTypeConfig, v)
			return err
		}},
		{"processor.update.settings", func(s *services, v string) error {
			if _, err := s.proc.Create(ctx, "r2", "proc", processor.Parent{ID: "c1", Type: processor.ParentTypeConnector}, processor.Config{Settings: nil, Workers: 1}, processor.ProvisionTypeAPI, ""); err != nil {
				return err
			}
			_, err := s.proc.Update(ctx, "r2", "proc", processor.Config{Settings: map[string]string{"k": v}, Workers: 2})
			return err
		}},
	}
	accepted, refused := 0, 0
	for _, fc := range cases {
		for vi, v := range strAlphabet {
			s, err := boot(nil)
			if err != nil {
				t.Fatal(err)
			}
			if err := mk(s); err != nil {
				t.Fatal(err)
			}
			rep.Eval()
			rep.Transitions(1)
			rep.State(fc.name + "|" + fmt.Sprint(vi))
			if err := fc.build(s, v); err != nil {
				refused++ // the value is rejected by validation: nothing is stored, nothing to read back
				rep.Outcome("refused-by-validation")
				continue
			}
			accepted++
			rep.Nontrivial(fc.name + "|" + fmt.Sprint(vi))
			diffs, err := restartAndCompare(s)
			rep.Trace()
			if err != nil {
				rep.AddViolation(verifkit.Violation{Key: "C17/restart-fails/" + fc.name, Text: fmt.Sprintf("field %s = %s: a restarted server cannot load the store: %v", fc.name, short(v), err), Replay: map[string]any{"field": fc.name, "value_index": vi}})
				continue
			}
			if len(diffs) > 0 {
				rep.AddViolation(verifkit.Violation{Key: "C17/field-changed/" + fc.name, Text: fmt.Sprintf("field %s = %s is not read back identically: %v", fc.name, short(v), diffs), Replay: map[string]any{"field": fc.name, "value_index": vi}})
			}
			rep.Outcome("roundtrip-ok")
			if vi == 10 {
				rep.Sample(map[string]any{"field": fc.name, "value": v, "diffs": diffs})
			}
		}
	}
	rep.Extra("values_accepted", accepted)
	rep.Extra("values_refused_by_validation", refused)

	// nil vs empty collections, every enum, reference orders
	type shape struct {
		name string
		do   func(s *services) error
	}
	var shapes []shape
	for _, st := range []pipeline.Status{pipeline.StatusRunning, pipeline.StatusSystemStopped, pipeline.StatusUserStopped, pipeline.StatusDegraded, pipeline.StatusRecovering} {
		st := st
		for _, msg := range []string{"", "boom"} {
			msg := msg
			shapes = append(shapes, shape{fmt.Sprintf("status=%s err=%q", st, msg), func(s *services) error { return s.pl.UpdateStatus(ctx, "pl", st, msg) }})
		}
	}
	for name, settings := range map[string]map[string]string{"nil": nil, "empty": {}, "one": {"a": "b"}} {
		settings := settings
		shapes = append(shapes, shape{"connector.settings=" + name, func(s *services) error {
			_, err := s.conn.Update(ctx, "c1", "plug", connector.Config{Name: "n", Settings: settings})
			return err
		}})
		shapes = append(shapes, shape{"dlq.settings=" + name, func(s *services) error {
			_, err := s.pl.UpdateDLQ(ctx, "pl", pipeline.DLQ{Plugin: "x", Settings: settings, WindowSize: 0, WindowNackThreshold: 0})
			return err
		}})
		shapes = append(shapes, shape{"processor.settings=" + name, func(s *services) error {
			_, err := s.proc.Create(ctx, "r9", "proc", processor.Parent{ID: "pl", Type: processor.ParentTypePipeline}, processor.Config{Settings: settings, Workers: 1}, processor.ProvisionTypeAPI, "")
			return err
		}})
	}
	for _, w := range [][2]int{{0, 0}, {1, 0}, {5, 4}, {1000000, 999999}} {
		w := w
		shapes = append(shapes, shape{fmt.Sprintf("dlq.window=%v", w), func(s *services) error {
			_, err := s.pl.UpdateDLQ(ctx, "pl", pipeline.DLQ{Plugin: "x", WindowSize: w[0], WindowNackThreshold: w[1]})
			return err
		}})
	}
	perms := [][]string{{"a", "b", "c"}, {"a", "c", "b"}, {"b", "a", "c"}, {"b", "c", "a"}, {"c", "a", "b"}, {"c", "b", "a"}}
	for _, p := range perms {
		p := p
		shapes = append(shapes, shape{fmt.Sprintf("reference order %v", p), func(s *services) error {
			for _, id := range p {
				if _, err := s.conn.Create(ctx, "conn-"+id, connector.TypeDestination, "plug", "pl", connector.Config{Name: id}, connector.ProvisionTypeAPI); err != nil {
					return err
				}
				if _, err := s.pl.AddConnector(ctx, "pl", "conn-"+id); err != nil {
					return err
				}
				if _, err := s.proc.Create(ctx, "proc-"+id, "proc", processor.Parent{ID: "pl", Type: processor.ParentTypePipeline}, processor.Config{Workers: 1}, processor.ProvisionTypeAPI, ""); err != nil {
					return err
				}
				if _, err := s.pl.AddProcessor(ctx, "pl", "proc-"+id); err != nil {
					return err
				}
				if _, err := s.conn.AddProcessor(ctx, "c1", "proc-"+id); err != nil {
					return err
				}
			}
			_, err := s.pl.RemoveConnector(ctx, "pl", "conn-"+p[1])
			return err
		}})
	}
	for _, sh := range shapes {
		s, err := boot(nil)
		if err != nil {
			t.Fatal(err)
		}
		if err := mk(s); err != nil {
			t.Fatal(err)
		}
		rep.Eval()
		rep.Transitions(1)
		rep.State("shape|" + sh.name)
		if err := sh.do(s); err != nil {
			rep.Outcome("refused-by-validation")
			continue
		}
		rep.Nontrivial("shape|" + sh.name)
		diffs, err := restartAndCompare(s)
		rep.Trace()
		if err != nil || len(diffs) > 0 {
			rep.AddViolation(verifkit.Violation{Key: "C17/shape-changed/" + strings.SplitN(sh.name, "=", 2)[0], Text: fmt.Sprintf("%s is not read back identically: %v %v", sh.name, err, diffs), Replay: map[string]any{"shape": sh.name}})
		}
		rep.Outcome("roundtrip-ok")
	}
}

// TestVerifC17OldFormats: records of older supported formats (pre-0.4.1 connector layout, golden fixtures) are generated, not
// just replayed: every combination of type x state x settings shape of the old layout must be understood after a restart.
func TestVerifC17OldFormats(t *testing.T) {
	rep, done := newReport(t, "oldformats")
	defer done()
	ctx := context.Background()
	type oldConn struct {
		Type string
		Data map[string]any
	}
	n := 0
	for _, typ := range []string{"Source", "Destination"} {
		for si, settings := range []any{nil, map[string]string{}, map[string]string{"k": "v", "日本": "😀"}} {
			for pi, procs := range []any{nil, []string{}, []string{"p1", "p2"}} {
				for sti, state := range []any{nil, map[string]any{"Position": "cDE="}, map[string]any{"Positions": map[string]string{"src": "cDE="}}} {
					if (typ == "Source" && sti == 2) || (typ == "Destination" && sti == 1) {
						continue
					}
					n++
					id := fmt.Sprintf("old-%d", n)
					created := time.Date(2022, 3, 4, 5, 6, 7, 890, time.UTC)
					raw, _ := json.Marshal(oldConn{Type: typ, Data: map[string]any{
						"XID": id, "XConfig": map[string]any{"Name": "name-" + id, "Settings": settings, "Plugin": "builtin:file", "PipelineID": "pl", "ProcessorIDs": procs},
						"XState": state, "XProvisionedBy": 1, "XCreatedAt": created, "XUpdatedAt": created.Add(time.Hour),
					}})
					rep.Eval()
					rep.Transitions(1)
					key := fmt.Sprintf("%s|settings%d|procs%d|state%d", typ, si, pi, sti)
					rep.State(key)
					rep.Nontrivial(key)
					s, err := boot(map[string][]byte{"connector:connector:" + id: raw})
					rep.Trace()
					if err != nil {
						rep.AddViolation(verifkit.Violation{Key: "C17/old-format-not-loadable", Text: fmt.Sprintf("pre-0.4.1 connector (%s) makes the restart fail: %v\n%s", key, err, raw), Replay: map[string]any{"case": key}})
						continue
					}
					c, err := s.conn.Get(ctx, id)
					if err != nil {
						rep.AddViolation(verifkit.Violation{Key: "C17/old-format-not-understood", Text: fmt.Sprintf("pre-0.4.1 connector (%s) is gone after the restart: %v\n%s", key, err, raw), Replay: map[string]any{"case": key}})
						continue
					}
					var diffs []string
					if c.Config.Name != "name-"+id || c.Plugin != "builtin:file" || c.PipelineID != "pl" || c.ProvisionedBy != 1 || !c.CreatedAt.Equal(created) {
						diffs = append(diffs, fmt.Sprintf("scalar fields: %+v", c))
					}
					if want := map[string]connector.Type{"Source": connector.TypeSource, "Destination": connector.TypeDestination}[typ]; c.Type != want {
						diffs = append(diffs, "type")
					}
					switch sti {
					case 0:
						if c.State != nil {
							diffs = append(diffs, fmt.Sprintf("state should be nil: %#v", c.State))
						}
					case 1:
						if st, ok := c.State.(connector.SourceState); !ok || string(st.Position) != "p1" {
							diffs = append(diffs, fmt.Sprintf("source position lost: %#v", c.State))
						}
					case 2:
						if st, ok := c.State.(connector.DestinationState); !ok || string(st.Positions["src"]) != "p1" {
							diffs = append(diffs, fmt.Sprintf("destination positions lost: %#v", c.State))
						}
					}
					if si == 2 && (c.Config.Settings["k"] != "v" || c.Config.Settings["日本"] != "😀") {
						diffs = append(diffs, "settings")
					}
					if pi == 2 && !reflect.DeepEqual(c.ProcessorIDs, []string{"p1", "p2"}) {
						diffs = append(diffs, "processor ids")
					}
					if len(diffs) > 0 {
						rep.AddViolation(verifkit.Violation{Key: "C17/old-format-misread", Text: fmt.Sprintf("pre-0.4.1 connector (%s) is misread: %v", key, diffs), Replay: map[string]any{"case": key}})
					}
					// and the migrated record must itself survive the next restart unchanged
					if d2, err := restartAndCompare(s); err != nil || len(d2) > 0 {
						rep.AddViolation(verifkit.Violation{Key: "C17/old-format-second-restart", Text: fmt.Sprintf("migrated connector (%s) changes on the next restart: %v %v", key, err, d2), Replay: map[string]any{"case": key}})
					}
					// ... and so must changes made AFTER the migration: the legacy record has to be gone, or the next restart
					// migrates it again over the current one
					if _, err := s.conn.Update(ctx, id, "builtin:file", connector.Config{Name: "name-" + id, Settings: map[string]string{"after": "migration-日本"}}); err != nil {
						rep.AddViolation(verifkit.Violation{Key: "C17/old-format-update-fails", Text: fmt.Sprintf("migrated connector (%s) cannot be updated: %v", key, err), Replay: map[string]any{"case": key}})
					}
					var newState any = connector.SourceState{Position: []byte{0x00, 0xff, 'p', '2'}}
					if typ == "Destination" {
						newState = connector.DestinationState{Positions: map[string]opencdc.Position{"src": []byte{0x00, 0xff, 'p', '2'}}}
					}
					if _, err := s.conn.SetState(ctx, id, newState); err != nil {
						rep.AddViolation(verifkit.Violation{Key: "C17/old-format-setstate-fails", Text: fmt.Sprintf("migrated connector (%s): SetState fails: %v", key, err), Replay: map[string]any{"case": key}})
					}
					rep.Transitions(2)
					if d3, err := restartAndCompare(s); err != nil || len(d3) > 0 {
						rep.AddViolation(verifkit.Violation{Key: "C17/old-format-change-lost-on-restart", Text: fmt.Sprintf("migrated connector (%s): a settings / position change made after the migration is not what a restarted server reads back: %v %v", key, err, d3), Replay: map[string]any{"case": key}})
					}
					// a connector deleted after the migration stays deleted
					if err := s.conn.Delete(ctx, id, noPlugins{}); err == nil {
						rep.Transitions(1)
						if r, rerr := boot(s.db.Content()); rerr == nil {
							if _, gerr := r.conn.Get(ctx, id); gerr == nil {
								rep.AddViolation(verifkit.Violation{Key: "C17/old-format-deleted-connector-resurrected", Text: fmt.Sprintf("migrated connector (%s) was deleted but exists again after a restart", key), Replay: map[string]any{"case": key}})
							}
						}
					}
					rep.Outcome("migrated")
					if n == 5 {
						rep.Sample(map[string]any{"old_record": string(raw), "loaded_state": fmt.Sprintf("%#v", c.State)})
					}
				}
			}
		}
	}
	// golden fixtures of the current format shipped with the repository
	root := os.Getenv("VERIF_REPO_DIR")
	for _, f := range []string{"golden_source_instance.json", "golden_destination_instance.json"} {
		raw, err := os.ReadFile(filepath.Join(root, "pkg/connector/testdata", f))
		if err != nil {
			rep.Cap("golden fixture " + f + " not readable")
			continue
		}
		rep.Eval()
		var probe struct{ ID string }
		_ = json.Unmarshal(raw, &probe)
		s, err := boot(map[string][]byte{"connector:instance:" + probe.ID: raw})
		rep.Trace()
		if err != nil {
			rep.AddViolation(verifkit.Violation{Key: "C17/golden-not-loadable", Text: fmt.Sprintf("%s: %v", f, err), Replay: map[string]any{"fixture": f}})
			continue
		}
		if _, err := s.conn.Get(ctx, probe.ID); err != nil {
			rep.AddViolation(verifkit.Violation{Key: "C17/golden-not-understood", Text: fmt.Sprintf("%s: %v", f, err), Replay: map[string]any{"fixture": f}})
		}
		if d2, err := restartAndCompare(s); err != nil || len(d2) > 0 {
			rep.AddViolation(verifkit.Violation{Key: "C17/golden-second-restart", Text: fmt.Sprintf("%s: %v %v", f, err, d2), Replay: map[string]any{"fixture": f}})
		}
		rep.State("golden|" + f)
		rep.Outcome("golden-ok")
	}
}
