//go:build verif

// Package verifimport: C15 - importing a pipeline config converges to it, is idempotent and fails atomically. Every
// ordered pair (old config, new config) of a grammar is imported through the REAL provisioning service over the real
// pipeline/connector/processor services; for each import every store write index is made to fail in turn.
package verifimport

import (
	"context"
	"encoding/json"
	"fmt"
	"github.com/conduitio/conduit-commons/opencdc"
	"os"
	"regexp"
	"sort"
	"strings"
	"testing"
	"time"

	"github.com/conduitio/conduit/pkg/connector"
	"github.com/conduitio/conduit/pkg/foundation/log"
	"github.com/conduitio/conduit/pkg/pipeline"
	"github.com/conduitio/conduit/pkg/processor"
	"github.com/conduitio/conduit/pkg/provisioning"
	"github.com/conduitio/conduit/pkg/provisioning/config"
	"github.com/conduitio/conduit/pkg/verifkit"
	"github.com/conduitio/conduit/pkg/verifkit/fakes"
)

type lifecycleStub struct{}

func (lifecycleStub) Start(context.Context, string) error                        { return nil }
func (lifecycleStub) Stop(context.Context, string, bool) error                   { return nil }
func (lifecycleStub) StopAndWait(context.Context, string) error                  { return nil }
func (lifecycleStub) ReconfigureProcessor(context.Context, string, string) error { return nil }
func (lifecycleStub) WaitPipeline(string) error                                  { return nil }

type sys struct {
	db    *verifkit.VDB
	pl    *pipeline.Service
	conn  *connector.Service
	proc  *processor.Service
	prov  *provisioning.Service
	ops   int
	failK int
}

func boot() *sys {
	ctx := context.Background()
	s := &sys{db: verifkit.NewVDB(nil)}
	w := verifkit.NewWorld()
	plugins := fakes.NewPlugins(w)
	for _, n := range []string{"src", "src2", "dst"} {
		plugins.AddSource(fakes.SourceScript{Name: n})
		plugins.AddDest(fakes.DestScript{Name: n})
	}
	procs := fakes.NewProcs(w)
	procs.Add(fakes.ProcScript{Name: "proc"})
	procs.Add(fakes.ProcScript{Name: "proc2"})
	logger := log.Nop()
	s.pl = pipeline.NewService(logger, s.db)
	s.conn = connector.NewService(logger, s.db, connector.NewPersister(logger, s.db, time.Hour, 1<<30))
	s.proc = processor.NewService(logger, s.db, procs)
	_ = s.pl.Init(ctx)
	_ = s.conn.Init(ctx)
	_ = s.proc.Init(ctx)
	s.prov = provisioning.NewService(s.db, logger, s.pl, s.conn, s.proc, plugins, lifecycleStub{}, "")
	s.db.OpHook = func(op, key string) error {
		if op != "set" && op != "commit" {
			return nil
		}
		s.ops++
		if s.failK > 0 && s.ops == s.failK {
			return verifkit.ErrInjected()
		}
		return nil
	}
	return s
}

// ---- configuration grammar ---------------------------------------------------------------------------------------

type cfgChoice struct {
	ConnProcs []string // processors on connector A, in order (ids)
	PipeProcs []string // pipeline processors, in order
	HasB      bool
	Edit      string
}

func (c cfgChoice) String() string {
	return fmt.Sprintf("A.procs=%v pipeline.procs=%v B=%v edit=%s", c.ConnProcs, c.PipeProcs, c.HasB, c.Edit)
}

func intp(i int) *int { return &i }

func (c cfgChoice) config() config.Pipeline {
	p := config.Pipeline{ID: "pl", Status: config.StatusStopped, Name: "name1", Description: "desc1"}
	mkProcs := func(ids []string) []config.Processor {
		var out []config.Processor
		for _, id := range ids {
			pr := config.Processor{ID: id, Plugin: "proc", Settings: map[string]string{"k": "v1"}, Workers: 1}
			out = append(out, pr)
		}
		return out
	}
	a := config.Connector{ID: "A", Type: config.TypeSource, Plugin: "src", Name: "conn-a", Settings: map[string]string{"s": "1"}, Processors: mkProcs(c.ConnProcs)}
	p.Connectors = append(p.Connectors, a)
	if c.HasB {
		p.Connectors = append(p.Connectors, config.Connector{ID: "B", Type: config.TypeDestination, Plugin: "dst", Name: "conn-b", Settings: map[string]string{}})
	}
	p.Processors = mkProcs(c.PipeProcs)
	switch c.Edit {
	case "name":
		p.Name = "name2"
	case "description":
		p.Description = "desc2"
	case "A.settings":
		p.Connectors[0].Settings = map[string]string{"s": "2", "t": "3"}
	case "A.plugin":
		p.Connectors[0].Plugin = "src2"
	case "A.name":
		p.Connectors[0].Name = "conn-a2"
	case "proc.settings":
		if len(p.Connectors[0].Processors) > 0 {
			p.Connectors[0].Processors[0].Settings = map[string]string{"k": "v2"}
		}
		if len(p.Processors) > 0 {
			p.Processors[len(p.Processors)-1].Settings = map[string]string{"k": "v2"}
		}
	case "proc.workers":
		if len(p.Connectors[0].Processors) > 0 {
			p.Connectors[0].Processors[len(p.Connectors[0].Processors)-1].Workers = 3
		}
		if len(p.Processors) > 0 {
			p.Processors[0].Workers = 2
		}
	case "proc.condition":
		if len(p.Processors) > 0 {
			p.Processors[0].Condition = `{{ eq .Metadata.k "v" }}`
		}
		if len(p.Connectors[0].Processors) > 0 {
			p.Connectors[0].Processors[0].Condition = `{{ eq .Metadata.k "w" }}`
		}
	case "proc.plugin":
		if len(p.Processors) > 0 {
			p.Processors[0].Plugin = "proc2"
		}
	case "B.type": // the second connector changes sides: import has to delete and re-create it under the same id
		if c.HasB {
			p.Connectors[1].Type = config.TypeSource
			p.Connectors[1].Plugin = "src"
		}
	case "dlq0": // the nack window is switched off (size 0) while a threshold is still configured: valid, stored as given
		p.DLQ = config.DLQ{Plugin: "dst", Settings: map[string]string{"d": "1"}, WindowSize: intp(0), WindowNackThreshold: intp(3)}
	case "dlq":
		p.DLQ = config.DLQ{Plugin: "dst", Settings: map[string]string{"d": "1"}, WindowSize: intp(4), WindowNackThreshold: intp(2)}
	}
	return config.Enrich(p)
}

func grammar(thorough bool) []cfgChoice {
	connProcs := [][]string{nil, {"a1"}, {"a1", "a2", "a3"}, {"a3", "a2", "a1"}}
	pipeProcs := [][]string{nil, {"x", "y", "z"}, {"z", "x"}}
	edits := []string{"", "name", "A.settings", "A.plugin", "proc.settings", "proc.workers", "proc.condition", "dlq", "B.type", "dlq0"}
	if thorough {
		connProcs = append(connProcs, []string{"a2"}, []string{"a1", "a2"}, []string{"a2", "a1", "a3"})
		pipeProcs = append(pipeProcs, []string{"x"}, []string{"x", "y"}, []string{"y", "x", "z"})
		edits = append(edits, "description", "A.name", "proc.plugin")
	}
	var out []cfgChoice
	for _, cp := range connProcs {
		for _, pp := range pipeProcs {
			for _, b := range []bool{true, false} {
				for _, e := range edits {
					if !thorough && !b && e != "" && e != "A.settings" {
						continue
					}
					out = append(out, cfgChoice{cp, pp, b, e})
				}
			}
		}
	}
	return out
}

// ---- canonical renderings -----------------------------------------------------------------------------------------

func renderSettings(m map[string]string) string {
	keys := make([]string, 0, len(m))
	for k := range m {
		keys = append(keys, k)
	}
	sort.Strings(keys)
	var sb strings.Builder
	for _, k := range keys {
		fmt.Fprintf(&sb, "%s=%s,", k, m[k])
	}
	return "{" + sb.String() + "}"
}

func renderProcs(ps []config.Processor) string {
	var sb strings.Builder
	for _, p := range ps {
		fmt.Fprintf(&sb, "[%s plugin=%s settings=%s workers=%d cond=%q]", p.ID, p.Plugin, renderSettings(p.Settings), p.Workers, p.Condition)
	}
	return sb.String()
}

// render is the configuration as the property sees it (order, settings, workers, conditions; nil == empty collections).
func render(p config.Pipeline) string {
	var sb strings.Builder
	ws, wt := 0, 0
	if p.DLQ.WindowSize != nil {
		ws = *p.DLQ.WindowSize
	}
	if p.DLQ.WindowNackThreshold != nil {
		wt = *p.DLQ.WindowNackThreshold
	}
	fmt.Fprintf(&sb, "pipeline %s name=%q desc=%q dlq=%s%s/%d/%d procs=%s\n", p.ID, p.Name, p.Description, p.DLQ.Plugin, renderSettings(p.DLQ.Settings), ws, wt, renderProcs(p.Processors))
	for _, c := range p.Connectors {
		fmt.Fprintf(&sb, " connector %s type=%s plugin=%s name=%q settings=%s procs=%s\n", c.ID, c.Type, c.Plugin, c.Name, renderSettings(c.Settings), renderProcs(c.Processors))
	}
	return sb.String()
}

// dump renders the service state (memory) for the atomicity comparison.
func (s *sys) dump() string {
	ctx := context.Background()
	var lines []string
	for id, p := range s.pl.List(ctx) {
		lines = append(lines, fmt.Sprintf("pipeline %s cfg=%v dlq=%s%s/%d/%d conns=%v procs=%v prov=%d", id, p.Config, p.DLQ.Plugin, renderSettings(p.DLQ.Settings), p.DLQ.WindowSize, p.DLQ.WindowNackThreshold, p.ConnectorIDs, p.ProcessorIDs, p.ProvisionedBy))
	}
	for id, c := range s.conn.List(ctx) {
		lines = append(lines, fmt.Sprintf("connector %s type=%d plugin=%s name=%q settings=%s procs=%v state=%v pipeline=%s", id, c.Type, c.Plugin, c.Config.Name, renderSettings(c.Config.Settings), c.ProcessorIDs, c.State, c.PipelineID))
	}
	for id, r := range s.proc.List(ctx) {
		lines = append(lines, fmt.Sprintf("processor %s plugin=%s parent=%v settings=%s workers=%d cond=%q", id, r.Plugin, r.Parent, renderSettings(r.Config.Settings), r.Config.Workers, r.Condition))
	}
	sort.Strings(lines)
	return strings.Join(lines, "\n")
}

func (s *sys) storeDump() string {
	c := s.db.Content()
	keys := make([]string, 0, len(c))
	for k := range c {
		keys = append(keys, k)
	}
	sort.Strings(keys)
	return strings.Join(keys, ",")
}

func TestVerifC15(t *testing.T) {
	rep := verifkit.NewReport("C15", "import-pairs")
	defer func() {
		if err := rep.Write(); err != nil {
			t.Fatal(err)
		}
		if rep.Violations() > 0 {
			t.Fail()
		}
	}()
	ctx := context.Background()
	thorough := verifkit.Thorough()
	g := grammar(thorough)
	rep.Bound("configs_in_grammar", len(g))
	rep.Bound("ordered_pairs", len(g)*len(g))
	shard, n := verifkit.Shard()
	deadline := verifkit.Deadline(150*time.Second, 45*time.Minute)
	only := os.Getenv("VERIF_ONLY")
	if rp := os.Getenv("VERIF_REPLAY"); rp != "" {
		// check C15 <tier> --replay <file>: only the recorded (old config, new config) pair is executed
		var doc struct {
			Replay struct{ Old, New cfgChoice } `json:"replay"`
		}
		b, err := os.ReadFile(rp)
		if err == nil {
			err = json.Unmarshal(b, &doc)
		}
		if err != nil {
			t.Fatalf("replay: %v", err)
		}
		only = doc.Replay.Old.String() + " -> " + doc.Replay.New.String()
		fmt.Printf("replay of the import pair %s\n", only)
		g = grammar(true)
	}
	pairs := 0
	for oi, oc := range g {
		old := oc.config()
		if err := config.Validate(old); err != nil {
			t.Fatalf("grammar produced an invalid config %v: %v", oc, err)
		}
		for ni, nc := range g {
			if (oi*len(g)+ni)%n != shard {
				continue
			}
			if only != "" && !strings.Contains(oc.String()+" -> "+nc.String(), only) {
				continue
			}
			if time.Now().After(deadline) {
				rep.Cap(fmt.Sprintf("wall-clock budget reached after %d pairs of this shard", pairs))
				return
			}
			pairs++
			neu := nc.config()
			pairKey := oc.String() + " -> " + nc.String()
			rep.State(pairKey)
			bad := func(what, text string) {
				rep.AddViolation(verifkit.Violation{Key: "C15/" + what, Text: text + "\nold config: " + oc.String() + "\nnew config: " + nc.String(), Replay: map[string]any{"old": oc, "new": nc}})
			}
			// --- fault-free import from the previously imported state
			s := boot()
			if err := s.prov.Import(ctx, old); err != nil {
				bad("valid-import-fails/initial", fmt.Sprintf("importing a valid configuration into an empty server failed: %v", err))
				continue
			}
			// a run leaves a position behind on the source connector
			if _, err := s.conn.SetState(ctx, "pl:A", connector.SourceState{Position: []byte("p7")}); err != nil {
				t.Fatal(err)
			}
			s.ops = 0
			err := s.prov.Import(ctx, neu)
			nops := s.ops
			rep.Eval()
			rep.Trace()
			rep.Transitions(int64(nops) + 1)
			if err != nil {
				bad("valid-import-fails", fmt.Sprintf("importing a valid configuration over a previously imported one failed: %v", firstLine(err)))
				rep.Outcome("import-error")
				continue
			}
			exp, err := s.prov.Export(ctx, "pl")
			if err != nil {
				bad("export-fails", fmt.Sprintf("Export after a successful import failed: %v", err))
				continue
			}
			condOnly := false
			if render(exp) != render(neu) && stripCond(render(exp)) == stripCond(render(neu)) {
				// the only difference is the condition of a processor that exists in both configurations: the update action
				// of the import has no way to change a condition (specific, separately keyed shape)
				condOnly = true
				bad("processor-condition-change-not-applied", fmt.Sprintf("the import succeeded but the condition of an existing processor was not changed:\n--- imported\n%s--- stored\n%s", render(neu), render(exp)))
			} else if render(exp) != render(neu) {
				bad("import-does-not-converge", fmt.Sprintf("after a successful import the stored configuration differs from the imported one:\n--- imported\n%s--- stored\n%s", render(neu), render(exp)))
			}
			if c, err := s.conn.Get(ctx, "pl:A"); err != nil || fmt.Sprint(c.State) != fmt.Sprint(connector.SourceState{Position: []byte("p7")}) {
				bad("connector-state-lost", fmt.Sprintf("connector pl:A persists across the import with the same id and type but its stored position changed: %v (err %v)", stateOf(c), err))
			}
			if d, err := s.prov.Plan(ctx, neu); condOnly {
				_ = d // follows from the unapplied condition: Plan keeps reporting it
			} else if err != nil || !d.Empty() {
				bad("plan-not-empty-after-import", fmt.Sprintf("Plan(new) right after importing new is not empty: %+v (err %v)", d.Changes, err))
			}
			before, beforeStore := s.dump(), s.storeDump()
			s.ops = 0
			if err := s.prov.Import(ctx, neu); err != nil {
				bad("second-import-fails", fmt.Sprintf("importing the same configuration again failed: %v", firstLine(err)))
			}
			if s.ops != 0 && !condOnly {
				bad("second-import-writes", fmt.Sprintf("importing the same configuration again performed %d store writes", s.ops))
			}
			if s.dump() != before || s.storeDump() != beforeStore {
				bad("second-import-changes-state", "importing the same configuration again changed the state")
			}
			rep.Outcome(fmt.Sprintf("converged writes=%d", nops))
			if pairs%211 == 1 {
				rep.Sample(map[string]any{"old": oc.String(), "new": nc.String(), "store_writes": nops, "stored": strings.Split(render(exp), "\n")})
			}
			// --- the same import with its k-th store write failing, for every k
			for k := 1; k <= nops; k++ {
				f := boot()
				if err := f.prov.Import(ctx, old); err != nil {
					break
				}
				_, _ = f.conn.SetState(ctx, "pl:A", connector.SourceState{Position: []byte("p7")})
				if oc.HasB {
					// the destination has a run behind it too: it remembers the last position it wrote per source
					_, _ = f.conn.SetState(ctx, "pl:B", connector.DestinationState{Positions: map[string]opencdc.Position{"pl:A": []byte("p7")}})
				}
				fbefore, fstore := f.dump(), f.storeDump()
				f.ops, f.failK = 0, k
				ferr := f.prov.Import(ctx, neu)
				f.failK = 0
				rep.Eval()
				rep.Trace()
				rep.Nontrivial(fmt.Sprintf("%s !fail@%d", pairKey, k))
				if ferr == nil {
					bad("failed-write-ignored", fmt.Sprintf("store write #%d of the import failed but the import reported success", k))
					continue
				}
				bDeleted := oc.HasB && (!nc.HasB || (nc.Edit == "B.type") != (oc.Edit == "B.type")) // removed, or deleted and re-created under the other type
				if after := f.dump(); after != fbefore && bDeleted && stripStateOf(after, "pl:B") == stripStateOf(fbefore, "pl:B") {
					// specific shape: the only thing lost is the state (positions) of a connector the failed import was about
					// to remove (or to re-create with another type) - its delete action is rolled back by CREATING the connector anew
					bad("failed-import-not-atomic/removed-connector-state-lost", fmt.Sprintf("the import failed at store write #%d (%v) and was rolled back, but connector pl:B - which the import was going to remove - lost its stored state:\n--- before\n%s\n--- after\n%s", k, firstLine(ferr), fbefore, after))
				} else if after != fbefore {
					bad("failed-import-not-atomic", fmt.Sprintf("the import failed at store write #%d (%v) but the previous configuration was not fully retained:\n--- before\n%s\n--- after\n%s", k, firstLine(ferr), fbefore, after))
				} else if f.storeDump() != fstore {
					bad("failed-import-not-atomic/store", fmt.Sprintf("the import failed at store write #%d but the set of stored keys changed: %s -> %s", k, fstore, f.storeDump()))
				}
				if exp, err := f.prov.Export(ctx, "pl"); err == nil && render(exp) != render(old) {
					bad("failed-import-not-atomic/export", fmt.Sprintf("after an import that failed at store write #%d Export no longer returns the previous configuration:\n%s", k, render(exp)))
				}
				rep.Outcome("failed-import-rolled-back")
			}
		}
	}
	rep.Extra("pairs_this_shard", pairs)
}

// stripStateOf removes the state of one connector from a dump.
func stripStateOf(dump, id string) string {
	lines := strings.Split(dump, "\n")
	for i, l := range lines {
		if strings.HasPrefix(l, "connector "+id+" ") {
			lines[i] = regexp.MustCompile(` state=.* pipeline=`).ReplaceAllString(l, " state=? pipeline=")
		}
	}
	return strings.Join(lines, "\n")
}

var condRe = regexp.MustCompile(` cond="(?:[^"\\]|\\.)*"`)

func stripCond(s string) string { return condRe.ReplaceAllString(s, "") }

func stateOf(c *connector.Instance) any {
	if c == nil {
		return nil
	}
	return c.State
}

func firstLine(err error) string {
	if err == nil {
		return "nil"
	}
	s := err.Error()
	if i := strings.Index(s, "\n"); i >= 0 {
		s = s[:i]
	}
	if len(s) > 300 {
		s = s[:300]
	}
	return s
}
