// Package vsync is a drop-in replacement for the parts of package sync that the conduit engine uses. It is
// injected by the /verif build overlay ("sync" import rewritten to this package) so that blocking on a mutex is
// a channel operation: inside a testing/synctest bubble a goroutine waiting for a Mutex is then *durably*
// blocked, which lets the explorer park goroutines at gates while they hold engine locks. Semantics are those
// of sync (mutual exclusion, no fairness guarantee; a pending writer blocks new readers of an RWMutex).
package vsync

import (
	"sync"
	"sync/atomic"
)

type (
	// WaitGroup is sync.WaitGroup (Wait is durably blocking under synctest).
	WaitGroup = sync.WaitGroup
	// Map is sync.Map.
	Map = sync.Map
	// Cond is sync.Cond.
	Cond = sync.Cond
	// Locker is sync.Locker.
	Locker = sync.Locker
)

// Once is sync.Once with a channel based lock: a second caller of Do waits (durably) while the first one is still
// running f, exactly as sync.Once does. The engine runs message ack/nack handler chains that block on plugin calls
// inside Once.Do (stream.Message.Ack/Nack).
type Once struct {
	done atomic.Uint32
	m    Mutex
}

// Do calls f if and only if Do is being called for the first time for this instance of Once.
func (o *Once) Do(f func()) {
	if o.done.Load() == 0 {
		o.doSlow(f)
	}
}

func (o *Once) doSlow(f func()) {
	o.m.Lock()
	defer o.m.Unlock()
	if o.done.Load() == 0 {
		defer o.done.Store(1)
		f()
	}
}

// NewCond is sync.NewCond.
func NewCond(l Locker) *Cond { return sync.NewCond(l) }

// OnceFunc is sync.OnceFunc.
func OnceFunc(f func()) func() { return sync.OnceFunc(f) }

// OnceValue is sync.OnceValue.
func OnceValue[T any](f func() T) func() T { return sync.OnceValue(f) }

// OnceValues is sync.OnceValues.
func OnceValues[T1, T2 any](f func() (T1, T2)) func() (T1, T2) { return sync.OnceValues(f) }

// Pool is a sync.Pool that never caches: Get always calls New. sync.Pool is allowed to drop any item at any time,
// so this is a legal Pool; it keeps channels created in one synctest bubble from leaking into the next one.
type Pool struct {
	New func() any
}

// Get returns New() (or nil).
func (p *Pool) Get() any {
	if p.New == nil {
		return nil
	}
	return p.New()
}

// Put drops the item.
func (p *Pool) Put(any) {}

// PointHook, when set, is called before every Lock/RLock (preemptive mode of the explorer).
var PointHook atomic.Pointer[func(site string)]

func point(site string) {
	if h := PointHook.Load(); h != nil {
		(*h)(site)
	}
}

// Mutex is a channel based mutex. The zero value is an unlocked mutex.
type Mutex struct {
	once sync.Once
	ch   chan struct{}
}

func (m *Mutex) c() chan struct{} {
	m.once.Do(func() { m.ch = make(chan struct{}, 1) })
	return m.ch
}

// Lock locks m.
func (m *Mutex) Lock() {
	point("Mutex.Lock")
	m.c() <- struct{}{}
}

// TryLock tries to lock m.
func (m *Mutex) TryLock() bool {
	select {
	case m.c() <- struct{}{}:
		return true
	default:
		return false
	}
}

// Unlock unlocks m.
func (m *Mutex) Unlock() {
	select {
	case <-m.c():
	default:
		panic("vsync: unlock of unlocked mutex")
	}
}

// RWMutex is a channel based reader/writer mutex. A pending Lock blocks new readers (as in package sync).
type RWMutex struct {
	w       Mutex      // held by a writer for its whole critical section, and briefly by a reader while entering
	mu      sync.Mutex // protects readers; never held across a blocking operation
	readers int
	once    sync.Once
	zero    chan struct{} // signalled when readers drops to zero
}

func (rw *RWMutex) z() chan struct{} {
	rw.once.Do(func() { rw.zero = make(chan struct{}, 1) })
	return rw.zero
}

// RLock locks rw for reading.
func (rw *RWMutex) RLock() {
	point("RWMutex.RLock")
	rw.w.c() <- struct{}{}
	rw.mu.Lock()
	rw.readers++
	rw.mu.Unlock()
	<-rw.w.c()
}

// TryRLock tries to lock rw for reading.
func (rw *RWMutex) TryRLock() bool {
	if !rw.w.TryLock() {
		return false
	}
	rw.mu.Lock()
	rw.readers++
	rw.mu.Unlock()
	rw.w.Unlock()
	return true
}

// RUnlock undoes a single RLock.
func (rw *RWMutex) RUnlock() {
	rw.mu.Lock()
	rw.readers--
	n := rw.readers
	rw.mu.Unlock()
	if n < 0 {
		panic("vsync: RUnlock of unlocked RWMutex")
	}
	if n == 0 {
		select {
		case rw.z() <- struct{}{}:
		default:
		}
	}
}

// Lock locks rw for writing.
func (rw *RWMutex) Lock() {
	point("RWMutex.Lock")
	rw.w.c() <- struct{}{}
	for {
		rw.mu.Lock()
		n := rw.readers
		rw.mu.Unlock()
		if n == 0 {
			return
		}
		<-rw.z()
	}
}

// TryLock tries to lock rw for writing.
func (rw *RWMutex) TryLock() bool {
	if !rw.w.TryLock() {
		return false
	}
	rw.mu.Lock()
	n := rw.readers
	rw.mu.Unlock()
	if n != 0 {
		rw.w.Unlock()
		return false
	}
	return true
}

// Unlock unlocks rw for writing.
func (rw *RWMutex) Unlock() { rw.w.Unlock() }

// RLocker returns a Locker whose Lock/Unlock call RLock/RUnlock.
func (rw *RWMutex) RLocker() Locker { return (*rlocker)(rw) }

type rlocker RWMutex

func (r *rlocker) Lock()   { (*RWMutex)(r).RLock() }
func (r *rlocker) Unlock() { (*RWMutex)(r).RUnlock() }
