#!/bin/sh
# usage: lib/seed6.sh <ID> [check-id ...]   (round-6 intake: copy the agent's SEED dir, verify the demo in a fresh worktree, run the checks)
id="$1"; shift
src=/tmp/${SROUND:-s6}/$id
dst=/verif/seeded/$id.${SNUM:-6}
mkdir -p "$dst"
cp "$src"/SEED/* "$dst"/ 2>/dev/null
demo=$(cd "$src" && git status --porcelain --untracked-files=all | awk '{print $2}' | grep -E "zz_seed${SNUM:-6}_.*_test.go$" | grep -v "^SEED/" | head -1)
pkg=$(dirname "$demo")
echo "demo=$demo pkg=$pkg"
# the patch must only touch non-test files
grep -E "^\+\+\+ " "$dst/patch.diff"
run=$(grep -h -o -E "func (Test[A-Za-z0-9_]+)" "$src/$demo" | awk '{print $2}' | paste -sd'|')
/verif/lib/seedverify.sh "$dst/patch.diff" "$src/$demo" "$pkg" "^($run)\$" 2>&1 | tee "$dst/verify.txt"
for c in "${@:-$id}"; do
  echo "=== check $c against $id.${SNUM:-6}"
  /verif/lib/muttest.sh "$dst/patch.diff" "$c" quick 2>&1 | tee "$dst/check_$c.txt"
done
