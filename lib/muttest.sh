#!/bin/sh
# usage: lib/muttest.sh <patch.diff> <check-id> [tier] [extra check args...]
# Like seedtest.sh but never touches /repo: the change is applied in a scratch worktree of /repo's HEAD and the check is
# pointed at it (VERIF_REPO), so it can run while other checks are building from /repo. The worktree is removed afterwards.
patch="$1"; id="$2"; tier="${3:-quick}"; shift; shift; [ $# -gt 0 ] && shift
WT=/tmp/mut-$$
git -C /repo worktree add --detach "$WT" HEAD >/dev/null 2>&1 || exit 2
( cd "$WT" && git apply "$patch" ) || { echo "patch does not apply"; git -C /repo worktree remove --force "$WT"; exit 2; }
cd /verif && VERIF_REPO="$WT" ./check "$id" "$tier" "$@" > /tmp/muttest.$$.out 2>&1; rc=$?
git -C /repo worktree remove --force "$WT"; git -C /repo worktree prune
grep -a -E "^check |^VIOLATION|^KNOWN|^HARNESS|^   key=" /tmp/muttest.$$.out | cut -c1-420 | head -${SEEDLINES:-12}
rm -f /tmp/muttest.$$.out
echo "exit=$rc"
