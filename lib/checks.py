"""Registry of checks: which harness parts decide which property."""

# packages of /repo whose "sync" import is rewritten to the vsync shim for E1 (gatebox) builds
INSTRUMENTED_PKGS = [
    "pkg/lifecycle", "pkg/lifecycle/stream", "pkg/lifecycle-poc", "pkg/lifecycle-poc/funnel",
    "pkg/connector", "pkg/provisioning", "pkg/plugin/connector/builtin", "pkg/processor", "pkg/pipeline",
    "pkg/orchestrator",
]
COMMONS_INSTRUMENTED = ["csync", "semaphore", "cchan", "rollback"]

# gomaxprocs 1: between two scheduling points the goroutines of an execution run in the runtime's deterministic run-queue
# order instead of in parallel on several OS threads (fewer replay divergences; the explorer owns the ordering that matters)
FLOW = {"name": "flow", "pkg": "pkg/verifflow", "harness": "flow", "run": "^TestVerifFlow$", "instrument": True,
        "shards": 16, "shards_thorough": 16, "gomaxprocs": 1}

V1_POINTS = ["pkg/lifecycle/stream/destination.go", "pkg/lifecycle/stream/destination_acker.go", "pkg/lifecycle/stream/source_acker.go"]
V2_POINTS = ["pkg/lifecycle-poc/funnel/destination.go"]
# the per-source workers of the funnel engine and the shared tail they serialise on
V2_WORKER_POINTS = ["pkg/lifecycle-poc/funnel/worker.go", "pkg/lifecycle-poc/funnel/destination.go", "pkg/lifecycle-poc/funnel/source.go"]
PREEMPT = {"name": "flow-preempt", "pkg": "pkg/verifflow", "harness": "flow", "run": "^TestVerifFlowPreempt$", "instrument": True,
           "shards": 16, "shards_thorough": 16, "points": V1_POINTS + V2_POINTS, "gomaxprocs": 1}

def preempt(points):
    d = dict(PREEMPT)
    d["points"] = points
    return d

# the fan-out vote tally of the funnel engine on its own: every serial order of the branches' votes (the tally runs every vote under
# one mutex, so these are all its concurrent behaviours) x every parent failure point, against a reference
TALLY = {"name": "fanout-tally", "pkg": "pkg/lifecycle-poc/funnel", "harness": "c04tally", "run": "^TestVerifC04Tally$", "shards": 8, "shards_thorough": 16}

CHECKS = {
    "C01": {"parts": [FLOW, preempt(V1_POINTS + ["pkg/lifecycle/stream/fanout.go"] + V2_WORKER_POINTS), TALLY]},
    "C02": {"parts": [FLOW, preempt(["pkg/connector/source.go", "pkg/connector/persister.go"])]},
    "C03": {"parts": [FLOW]},
    "C04": {"parts": [FLOW, preempt(V1_POINTS + ["pkg/lifecycle/stream/fanout.go", "pkg/connector/source.go"] + V2_WORKER_POINTS), TALLY]},
    "C06": {"parts": [FLOW, preempt(V1_POINTS + V2_POINTS + ["pkg/connector/source.go", "pkg/connector/persister.go"])]},
    "C07": {"rule": "window arithmetic: every window size and threshold 0..5 (0..6 thorough) x every outcome sequence up to length 10/9 (14/12) x every batch partition (v2) on the real dlqWindow of both engines and, through the exported handlers, sizes 0..3 (0..5) x length 7 (10) against one reference; routing: schedules of the scripted plugins on the real full stack",
            "parts": [FLOW, preempt(["pkg/lifecycle/dlq.go", "pkg/lifecycle/stream/dlq.go", "pkg/lifecycle-poc/funnel/dlq.go"]),
                      {"name": "window-v1", "pkg": "pkg/lifecycle/stream", "harness": "c07w1", "run": "^TestVerifC07WindowV1$"},
                      {"name": "window-v2", "pkg": "pkg/lifecycle-poc/funnel", "harness": "c07w2", "run": "^TestVerifC07WindowV2$", "shards": 8, "shards_thorough": 16},
                      {"name": "parity", "pkg": "pkg/lifecycle/dlqparity", "harness": "c07par", "run": "^TestVerifC07Parity$", "shards": 8, "shards_thorough": 16},
                      {"name": "engine-parity", "pkg": "pkg/verifflow", "harness": "flow", "run": "^TestVerifC07EngineParity$", "instrument": True, "shards": 16, "shards_thorough": 16, "gomaxprocs": 1}]},
    "C12": {"parts": [FLOW, preempt(V1_POINTS + V2_POINTS + ["pkg/lifecycle/stream/source.go", "pkg/lifecycle/stream/base.go", "pkg/lifecycle-poc/funnel/worker.go"])]},
    "C10": {"parts": [FLOW, preempt(["pkg/lifecycle/service.go", "pkg/lifecycle-poc/service.go"])]},
    "C11": {"parts": [FLOW, preempt(["pkg/lifecycle/service.go", "pkg/lifecycle-poc/service.go"]),
                      # the reservation a start takes on each processor: every operation history <=5 on the real processor.Service
                      {"name": "processor-reservation", "pkg": "pkg/processor", "harness": "c11resv", "run": "^TestVerifC11Reservation$", "shards": 8, "shards_thorough": 16}]},
    "C13": {"parts": [FLOW, preempt(["pkg/lifecycle/stream/processor.go"])]},
    "C16": {"parts": [FLOW, preempt(["pkg/provisioning/lock.go", "pkg/provisioning/plan.go"]),
                      # the per-pipeline apply lock on its own: every arrival/leave order of 2-5 callers + one preemption at every statement
                      {"name": "keyed-lock", "pkg": "pkg/provisioning", "harness": "c16lock", "run": "^TestVerifC16Lock$", "instrument": True,
                       "points": ["pkg/provisioning/lock.go"], "gomaxprocs": 1, "shards": 4, "shards_thorough": 16}]},
    "C09": {"rule": "conditional processor: inputs<=4 x all match patterns x output length 0..kept+1 x kind vectors x slice capacity; sandbox: plugin behaviours x context states; reply shapes of processors, destinations and sources explored as answers of the scripted plugins on the real full stack",
            "parts": [{"name": "condmerge", "pkg": "pkg/verifc09", "harness": "c09cond", "run": "^TestVerifC09Cond$"},
                      {"name": "sandbox", "pkg": "pkg/plugin/connector/builtin", "harness": "c09sandbox", "run": "^TestVerifC09Sandbox$", "instrument": True},
                      FLOW, preempt(V1_POINTS + V2_POINTS + ["pkg/processor/processor_condition.go", "pkg/processor/runnable_processor.go"])]},
    "C08": {"rule": "input enumeration: batch size <=3 x per-record result kinds {pass, filter, error, split2, short-once} at stage 1 x {pass, filter, error} at stage 2 x 1-2 destinations x every single rejected piece; one default-schedule execution of the real full stack per input, compared with a reference interpreter",
            "parts": [{"name": "accounting", "pkg": "pkg/verifflow", "harness": "flow", "run": "^TestVerifC08$", "instrument": True, "shards": 16, "shards_thorough": 16}]},
    "C05": {"parts": [FLOW, preempt(V2_WORKER_POINTS)]},
    "C14": {
        "rule": "explicit-state BFS: state = API operation history on fresh real orchestrator+services; alphabet = create/update/delete/start/stop of pipelines, connectors, processors with valid and invalid arguments, and for every call the variant where its k-th store write/commit fails (every k); distinct = canonical dump (ids renamed by creation order, timestamps dropped)",
        "parts": [
            {"name": "api-bfs", "pkg": "pkg/verifapi", "harness": "api", "run": "^TestVerifC14$", "shards": 16, "shards_thorough": 16},
        ],
    },
    "C15": {
        "rule": "every ordered pair (old, new) of a configuration grammar (connector processors lists/orders x pipeline processors lists/orders x second connector present x one field edit) imported through the real provisioning service; for each import every store write index made to fail",
        "parts": [
            {"name": "import-pairs", "pkg": "pkg/verifimport", "harness": "imp", "run": "^TestVerifC15$", "shards": 16, "shards_thorough": 16},
        ],
    },
    "C17": {
        "rule": "positions: every byte string up to the stated length + nil/empty/large; fields: every text field x a 20-string Unicode class alphabet; nil/empty/one-element collections; every status and enum; reference-order permutations; generated pre-0.4.1 connector records and golden fixtures; each case is stored through the real services and read back by fresh services on a copy of the store",
        "parts": [
            {"name": "positions", "pkg": "pkg/verifstore", "harness": "store", "run": "^TestVerifC17Positions$", "shards": 8, "shards_thorough": 16},
            {"name": "fields", "pkg": "pkg/verifstore", "harness": "store", "run": "^TestVerifC17Fields$"},
            {"name": "oldformats", "pkg": "pkg/verifstore", "harness": "store", "run": "^TestVerifC17OldFormats$"},
            # "a running pipeline is found again as one to be resumed": what a graceful shutdown leaves in the store
            FLOW,
        ],
    },
    "C18": {
        "rule": "IPv4: every address (thorough) / 4 addresses of every /24 + floor boundaries (quick) in 8 carrier forms; IPv6: all leading hextets x tails; dial: every resolver answer sequence <=2 (quick) / <=3 (thorough) x allowlists x ports; policy: all subset pairs of a 4-entry universe x refs x timeouts x sizes",
        "parts": [
            {"name": "ipv4", "pkg": "pkg/plugin/processor/egress", "harness": "c18", "run": "^TestVerifC18IPv4$", "shards": 16, "shards_thorough": 16, "timeout_thorough": "60m"},
            {"name": "ipv6", "pkg": "pkg/plugin/processor/egress", "harness": "c18", "run": "^TestVerifC18IPv6$"},
            {"name": "dial", "pkg": "pkg/plugin/processor/egress", "harness": "c18", "run": "^TestVerifC18Dial$", "shards": 8, "shards_thorough": 16},
            {"name": "policy", "pkg": "pkg/plugin/processor/egress", "harness": "c18", "run": "^TestVerifC18Policy$", "shards": 8},
            {"name": "dialseq", "pkg": "pkg/plugin/processor/egress", "harness": "c18", "run": "^TestVerifC18DialSequences$", "shards": 8, "shards_thorough": 16},
            # where a policy is BOUND to a processor: processor.Service at cold start, live reconfigure and restart
            {"name": "binding", "pkg": "pkg/processor", "harness": "c18bind", "run": "^TestVerifC18Binding$", "shards": 8, "shards_thorough": 16},
        ],
    },
    "C19": {
        "rule": "gates: digest x fetch outcome x verifier behaviour x allow-unsigned x 64 policy-signal combinations x dry-run through the real Install; archives: every entry sequence <=2 (quick) / <=3 (thorough) over hostile names x entry types x link targets through ExtractBinary; installs: every history <=3 of installs over index version/role/content x digest x verifier through the real Install + TrustedVerifier; crash: SIGKILL / EIO / ENOSPC injected at every file-system syscall of the real state/manifest write; concurrent: every order of 2-3 VerifyIndex calls queued on the state lock",
        "parts": [
            {"name": "gates", "pkg": "pkg/registry", "harness": "c19", "run": "^TestVerifC19Gates$", "shards": 8, "shards_thorough": 16},
            {"name": "archives", "pkg": "pkg/registry", "harness": "c19", "run": "^TestVerifC19Archives$", "shards": 8, "shards_thorough": 16},
            {"name": "installs", "pkg": "pkg/registry", "harness": "c19", "run": "^TestVerifC19Installs$", "shards": 16, "shards_thorough": 16},
            {"name": "crash", "pkg": "pkg/registry", "harness": "c19", "run": "^TestVerifC19Crash$", "shards": 8},
            {"name": "concurrent", "pkg": "pkg/registry", "harness": "c19", "run": "^TestVerifC19ConcurrentIndex$"},
            # VerifyIndex histories with every single file-system fault (EACCES / EROFS / EIO / ENOSPC at every syscall)
            {"name": "index-faults", "pkg": "pkg/registry", "harness": "c19", "run": "^TestVerifC19IndexFaults$", "shards": 16, "shards_thorough": 16},
        ],
    },
    "C20": {
        "rule": "every error tree up to the stated depth over the constructor alphabet; distinct = distinct tree shapes; "
                "non-trivial = trees containing at least one wrapper around a classified node",
        "parts": [
            {"name": "errtrees", "pkg": "cmd/conduit/internal/verifc20", "harness": "c20", "run": "^TestVerifC20$", "shards": 8, "shards_thorough": 16},
            {"name": "callsites", "pkg": "cmd/conduit/internal/verifc20", "harness": "c20", "run": "^TestVerifC20Sites$"},
            # the wrappers of the real engines between the failing node and the lifecycle service: a fatal cause stays fatal
            # (the pipeline degrades) whatever path the error takes
            FLOW,
        ],
    },
}
