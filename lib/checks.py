"""Registry of checks: which harness parts decide which property."""

# packages of /repo whose "sync" import is rewritten to the vsync shim for E1 (gatebox) builds
INSTRUMENTED_PKGS = [
    "pkg/lifecycle", "pkg/lifecycle/stream", "pkg/lifecycle-poc", "pkg/lifecycle-poc/funnel",
    "pkg/connector", "pkg/provisioning", "pkg/plugin/connector/builtin", "pkg/processor", "pkg/pipeline",
    "pkg/orchestrator",
]
COMMONS_INSTRUMENTED = ["csync", "semaphore", "cchan", "rollback"]

FLOW = {"name": "flow", "pkg": "pkg/verifflow", "harness": "flow", "run": "^TestVerifFlow$", "instrument": True,
        "shards": 16, "shards_thorough": 16}

CHECKS = {
    "PROC": {"parts": [FLOW]},
    "C01": {"parts": [FLOW]},
    "C02": {"parts": [FLOW]},
    "C03": {"parts": [FLOW]},
    "C04": {"parts": [FLOW]},
    "C06": {"parts": [FLOW]},
    "C07": {"parts": [FLOW]},
    "C12": {"parts": [FLOW]},
    "C05": {"parts": [FLOW]},
    "SMOKE": {
        "parts": [
            {"name": "smoke", "pkg": "pkg/verifflow", "harness": "flow", "run": "^TestVerifFlow$", "instrument": True, "shards": 4},
        ],
    },
    "C20": {
        "rule": "every error tree up to the stated depth over the constructor alphabet; distinct = distinct tree shapes; "
                "non-trivial = trees containing at least one wrapper around a classified node",
        "parts": [
            {"name": "errtrees", "pkg": "cmd/conduit/internal/verifc20", "harness": "c20", "run": "^TestVerifC20$", "shards": 8, "shards_thorough": 16},
            {"name": "callsites", "pkg": "cmd/conduit/internal/verifc20", "harness": "c20", "run": "^TestVerifC20Sites$"},
        ],
    },
}
