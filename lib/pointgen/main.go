// pointgen inserts a scheduling point `verifkit.Point("<label>:<line>")` before every statement of every function body of a
// Go source file (statement-level preemption points for the gatebox explorer). Usage: pointgen <in.go> <out.go> <label>
package main

import (
	"fmt"
	"go/ast"
	"go/parser"
	"go/token"
	"os"
	"sort"
	"strconv"
)

const kitPath = "github.com/conduitio/conduit/pkg/verifkit"

func main() {
	if len(os.Args) != 4 {
		fmt.Fprintln(os.Stderr, "usage: pointgen <in.go> <out.go> <label>")
		os.Exit(2)
	}
	in, out, label := os.Args[1], os.Args[2], os.Args[3]
	fset := token.NewFileSet()
	f, err := parser.ParseFile(fset, in, nil, parser.ParseComments)
	if err != nil {
		fmt.Fprintln(os.Stderr, err)
		os.Exit(1)
	}
	src, err := os.ReadFile(in)
	if err != nil {
		fmt.Fprintln(os.Stderr, err)
		os.Exit(1)
	}
	// Text-level insertion at the byte offset of every statement start (AST only used to find the offsets): the original
	// source, comments and formatting stay untouched, which keeps line numbers identical to the repository file.
	type ins struct {
		off  int
		text string
	}
	var inserts []ins
	add := func(list []ast.Stmt) {
		for _, st := range list {
			switch st.(type) {
			case *ast.DeclStmt, *ast.EmptyStmt, *ast.CaseClause, *ast.CommClause:
				continue // (the body of a switch/select is a block of clauses, not of statements)
			}
			pos := fset.Position(st.Pos())
			inserts = append(inserts, ins{pos.Offset, "verifkitpt.SchedPoint(" + strconv.Quote(label+":"+strconv.Itoa(pos.Line)) + "); "})
		}
	}
	ast.Inspect(f, func(n ast.Node) bool {
		switch x := n.(type) {
		case *ast.BlockStmt:
			add(x.List)
		case *ast.CaseClause:
			add(x.Body)
		case *ast.CommClause:
			add(x.Body)
		}
		return true
	})
	sort.Slice(inserts, func(i, j int) bool { return inserts[i].off > inserts[j].off })
	outSrc := src
	for _, in := range inserts {
		outSrc = append(outSrc[:in.off:in.off], append([]byte(in.text), outSrc[in.off:]...)...)
	}
	if len(inserts) > 0 {
		// the import goes right behind the package clause, on the same line (line numbers stay the same)
		off := fset.Position(f.Name.End()).Offset
		outSrc = append(outSrc[:off:off], append([]byte("; import verifkitpt "+strconv.Quote(kitPath)), outSrc[off:]...)...)
	}
	if _, err := parser.ParseFile(token.NewFileSet(), out, outSrc, 0); err != nil {
		fmt.Fprintln(os.Stderr, "instrumented source does not parse:", err)
		os.Exit(1)
	}
	if err := os.WriteFile(out, outSrc, 0o644); err != nil {
		fmt.Fprintln(os.Stderr, err)
		os.Exit(1)
	}
	fmt.Printf("%s: %d points\n", label, len(inserts))
}
