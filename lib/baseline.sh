#!/bin/sh
# Runs the repository's pinned test suite (the tests listed in /root/.vp/BASELINE.json stable_pass) on /repo's HEAD in a
# scratch worktree (so that seeded patches applied to /repo's working tree meanwhile cannot interfere), compares the
# outcome with stable_pass and removes the worktree. Usage: lib/baseline.sh [out.json]
set -u
OUT=${1:-/tmp/baseline_$$.json}
WT=/tmp/bl-$$
TC=/root/go/pkg/mod/golang.org/toolchain@v0.0.1-go1.25.8.linux-amd64/bin
export PATH=$TC:$PATH GOTOOLCHAIN=local GOPROXY=off GOSUMDB=off GOFLAGS=
git -C /repo worktree add --detach "$WT" HEAD >/dev/null 2>&1 || exit 2
: > "$OUT"
for m in $(cat /w/out/gomods.txt); do
	(cd "$WT/$m" && go test -mod=mod -json -vet=off -count=1 -timeout 25m ./... >> "$OUT" 2>/dev/null)
done
git -C /repo worktree remove --force "$WT"
git -C /repo worktree prune
python3 - "$OUT" <<'EOF'
import json, sys
base = json.load(open('/root/.vp/BASELINE.json'))
stable = set(base['stable_pass'])
res = {}
for line in open(sys.argv[1], errors='replace'):
    try:
        d = json.loads(line)
    except Exception:
        continue
    if d.get('Action') in ('pass', 'fail', 'skip') and d.get('Test'):
        res[d['Package'] + '::' + d['Test']] = d['Action']
bad = sorted(t for t in stable if res.get(t) != 'pass')
print("baseline: %d stable tests, %d results, %d not passing" % (len(stable), len(res), len(bad)))
for t in bad[:40]:
    print("  ", res.get(t, 'absent'), t)
sys.exit(1 if bad else 0)
EOF
