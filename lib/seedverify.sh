#!/bin/sh
# usage: seedverify.sh <patch.diff> <demo_test.go> <pkgdir (repo relative)> <run-regex>
# In a fresh scratch worktree of /repo HEAD: the demo must FAIL with the change and PASS without it; the package's own tests must pass with it.
patch="$1"; demo="$2"; pkg="$3"; run="$4"
export PATH=/root/go/pkg/mod/golang.org/toolchain@v0.0.1-go1.25.8.linux-amd64/bin:$PATH GOTOOLCHAIN=local GOPROXY=off GOFLAGS=
wt=$(mktemp -d /tmp/sv-XXXXXX); rmdir "$wt"
git -C /repo worktree add -q --detach "$wt" HEAD || exit 2
cd "$wt" || exit 2
cp "$demo" "$pkg/zz_seed_demo_test.go"
echo "== WITHOUT change: demo (must pass)"; go test -count=1 -run "$run" "./$pkg" 2>&1 | tail -2
git apply "$patch" || { echo "PATCH DOES NOT APPLY"; cd /; git -C /repo worktree remove --force "$wt"; exit 2; }
echo "== WITH change: demo (must fail)"; go test -count=1 -run "$run" "./$pkg" 2>&1 | grep -E "^(--- FAIL|FAIL|ok|panic)" | head -5
echo "== WITH change: package's own tests (must pass)"; go test -count=1 -skip "$run" "./$pkg" 2>&1 | tail -2
cd /; git -C /repo worktree remove --force "$wt"
