ENGINES = [
    {"name": "gatebox", "path": "/verif/kit", "kind_free_text": "stateless DFS (CHESS-style, iterated deviation bound) over the environment schedule of the REAL engine running inside a testing/synctest bubble; plugins, store, clock and control calls are gates owned by the explorer",
     "serves_properties": ["C01", "C02", "C03", "C04", "C05", "C06", "C07", "C12"]},
    {"name": "seqbox", "path": "/verif/harness", "kind_free_text": "bounded-exhaustive enumeration / explicit-state BFS over real sequential cores against boring reference models",
     "serves_properties": ["C14", "C18", "C20"]},
    {"name": "crashbox", "path": "/verif/kit", "kind_free_text": "crash-point enumeration: every prefix of every explored history + real restart; syscall-level kill injection for file writes",
     "serves_properties": ["C03"]},
]
NOTES = "All checks run the real implementation from /repo's current working tree through a generated build overlay; see DESIGN.md."
NOT_APPLICABLE = {}
FLOW_NOTE = ("Bounded: 1-2 sources x 1-3 destinations, 2-3 records, deviation bound as reported in evidence (bounds iterated 0,1,2,...); interleavings between "
             "scheduling points rely on data-race freedom; gRPC transport and real connectors are replaced by scripted plugins on the real built-in dispenser/adapter/in-memory stream; "
             "the KV store is a transactional in-memory store with failing writes (no torn writes).")
FLOW_LEVEL = ("Stateless model checking of the implementation: the real lifecycle service (v1 and arch-v2), nodes/worker, connector.Source/Destination, persister and stores run inside a "
              "testing/synctest bubble; every reply of the scripted source/destination/DLQ plugins, every store commit and every control call (start, stop-and-wait, force stop) is a gate; "
              "the explorer enumerates every order and answer of the pending gates up to the deviation bound (CHESS-style iterated bounding, DFS by replay of named choices) and evaluates the oracle on the event log of every execution. ")
TEXT = {
    "C01": {"engine": "gatebox", "technique": "stateless model checking of the real engine (environment-schedule DFS, iterated deviation bound) with an event-log monitor",
            "level": FLOW_LEVEL + "Oracle: at every ack seen by a source plugin, every destination has positively confirmed the record, or the DLQ confirmed it.",
            "design_ref": "DESIGN.md section 6, C01", "note": FLOW_NOTE},
    "C04": {"engine": "gatebox", "technique": "stateless model checking of the real engine (environment-schedule DFS, iterated deviation bound) with an event-log monitor",
            "level": FLOW_LEVEL + "Oracle: per source and run, the sequence of positions acknowledged to the plugin is a prefix of the emitted sequence (order, no gaps, no repeats).",
            "design_ref": "DESIGN.md section 6, C04", "note": FLOW_NOTE},
    "C05": {"engine": "gatebox", "technique": "stateless model checking of the real engine (environment-schedule DFS, iterated deviation bound) with an event-log monitor",
            "level": FLOW_LEVEL + "Oracle: per (destination, source) the received records are strictly increasing in read order within one run; nothing is written twice.",
            "design_ref": "DESIGN.md section 6, C05", "note": FLOW_NOTE},
    "C20": {
        "engine": "seqbox",
        "technique": "bounded-exhaustive enumeration of error trees (explicit-state, reference by structural recursion) + exhaustive call-site scan closing the alphabet",
        "level": "Every error tree of depth <=4 (quick) / <=5 (thorough) over the real constructors {New, Errorf %w, Errorf %v (opaque), Join, FatalError, conduiterr.New/Wrap/WithCode, context.Canceled, plain sentinel, grpc status, ECONNREFUSED} is built with the real constructors and classified by the real IsFatalError / conduiterr.Get / ToStatus+FromStatus / exitcode.ExitCode / api status mapping; each result is compared with a classification computed by structural recursion over the tree. Additionally every registered code (all of them, via the allcodes package) is pushed through every composition of <=3 plain wrappers. A second part scans every cerrors.Errorf call site of the repository for formats outside the enumerated alphabet (more than one %w) and probes the real constructor with that format.",
        "design_ref": "DESIGN.md section 6, C20",
        "note": "Bounded depth; binary nodes draw children from depth <=2 subtrees; xerrors/grpc-status libraries are exercised as linked, not modelled.",
    },
}

_T = "stateless model checking of the real engine (environment-schedule DFS, iterated deviation bound) with an event-log monitor"
TEXT.update({
    "C02": {"engine": "gatebox", "technique": _T + "; store commits and in-transaction write failures are gates",
            "level": FLOW_LEVEL + "Store commits are gates with answers {ok, fail}; the write of each source connector inside a flush transaction can be made to fail; every commit is snapshotted and decoded with the real stores. Oracle: (a) each plugin ack is preceded by a successful commit holding that position or a later one; (c) the stored position never moves backwards; (d) at every commit every record at or before the stored position has been confirmed by all destinations / the DLQ / filtered.",
            "design_ref": "DESIGN.md section 6, C02", "note": FLOW_NOTE},
    "C03": {"engine": "gatebox+crashbox", "technique": _T + " + crash-point enumeration: every store snapshot of every explored history is a crash image on which the engine is really restarted",
            "level": FLOW_LEVEL + "Every prefix of every explored history is a crash instant: the log predicate (no plugin ack beyond the last durable position; nothing at or before it unhandled) is evaluated at every commit/ack event, and for every DISTINCT store snapshot the engine is really restarted (fresh services, Init, lifecycle Init) in a new bubble: the source must be opened exactly at the stored position, a running pipeline must be resumed, and every record after the position must be delivered again.",
            "design_ref": "DESIGN.md section 6, C03", "note": FLOW_NOTE},
    "C06": {"engine": "gatebox", "technique": _T + "; the stop request is a control action offered at every quiescent point",
            "level": FLOW_LEVEL + "Healthy environment only (no fault answers, no answer slower than 5s virtual). The graceful stop (StopAndWait, or Stop + WaitPipeline) is issued at every quiescent point within the deviation bound. Oracle when it returns nil: every delivered record has its final outcome and was acked to its source before the source teardown, stored position == last acked record, every opened connector torn down exactly once; and the stop always returns.",
            "design_ref": "DESIGN.md section 6, C06", "note": FLOW_NOTE},
    "C07": {"engine": "gatebox", "technique": _T,
            "level": FLOW_LEVEL + "Rejections by destinations, per-destination processors and the DLQ itself are explored in every topology incl. fan-out with partial rejection. Oracle: at most one confirmed DLQ copy per rejected record and run (a rejected write may be retried), DLQ record carries original, error and failing component, DLQ order = source order, a record whose DLQ write failed is never acked nor covered by the stored position. (Window arithmetic parity: see DESIGN.md, decided by the E2 part when present.)",
            "design_ref": "DESIGN.md section 6, C07", "note": FLOW_NOTE},
    "C12": {"engine": "gatebox", "technique": _T + "; the force stop is a control action offered at every quiescent point, with subsets of plugins never answering",
            "level": FLOW_LEVEL + "Stop(force) is issued at every quiescent point within the bound, with each subset of {destination, DLQ} blocked (their gates are never granted). Oracle: WaitPipeline returns, final status Degraded, no automatic re-open of the source, C01 keeps holding, and a following Start re-opens the source at a position not past any unhandled record.",
            "design_ref": "DESIGN.md section 6, C12", "note": FLOW_NOTE + " One listed known finding (force stop does not cancel a pending recovery in v1)."},
    "C14": {"engine": "seqbox", "technique": "explicit-state BFS over the real orchestrator + services (state = operation history replayed on fresh instances), with single store-operation fault injection at every index",
            "level": "Breadth-first search over API histories (create/update/delete/start/stop of pipelines, connectors, processors with valid and invalid arguments, API- and file-provisioned, stopped and running), depth 4 (quick) / 5 (thorough), deduplicated by a canonical dump; every call is also executed with its k-th store write/commit failing for every k. Oracles per transition: error => memory dump and stored key set identical to the pre-state; memory == fresh services initialised from the store; references mutually consistent; resources of running / file-provisioned pipelines untouched.",
            "design_ref": "DESIGN.md section 6, C14", "note": "<=2 pipelines, 2 connectors, 2 processors; plugins are scripted; the lifecycle service is a stub that only flips the stored status; single-fault model (one failing store write per call). Two listed known findings."},
    "C18": {"engine": "seqbox", "technique": "literal exhaustion of the IPv4 space and of IPv6 prefix structure through the real guard + bounded-exhaustive enumeration of resolver answers and policy pairs",
            "level": "Refuse() is evaluated on every IPv4 address (thorough: all 2^32; quick: 4 addresses of every /24 plus every floor boundary +-2) in 8 carrier forms (4-byte, v4-mapped, NAT64, v4-translated, 6to4, Teredo client/server, v4-compatible) against an independent integer-range classifier of the documented refused floor; all 65536 leading IPv6 hextets x tails; every resolver answer sequence of length <=2/<=3 over a 14-class address alphabet x allowlists x ports through the real dialContext/dialControl (attempts observed at the dialer Control hook); every (processor policy, ceiling) pair over a 4-entry universe x secret refs x timeouts x sizes through ResolvePolicy.",
            "design_ref": "DESIGN.md section 6, C18", "note": "No network: a dial attempt is observed at the Control hook and stopped before connect(2); redirect/proxy clauses rely on the single http.Client construction (Proxy nil, CheckRedirect) and are not re-enumerated."},
})
