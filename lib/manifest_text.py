ENGINES = [
    {"name": "gatebox", "path": "/verif/kit", "kind_free_text": "stateless DFS (CHESS-style, iterated deviation bound) over the environment schedule of the REAL engine running inside a testing/synctest bubble; plugins, store, clock and control calls are gates owned by the explorer",
     "serves_properties": ["C01", "C02", "C03", "C04", "C05", "C06", "C07", "C12"]},
    {"name": "seqbox", "path": "/verif/harness", "kind_free_text": "bounded-exhaustive enumeration / explicit-state BFS over real sequential cores against boring reference models",
     "serves_properties": ["C14", "C18", "C20"]},
    {"name": "crashbox", "path": "/verif/kit", "kind_free_text": "crash-point enumeration: every prefix of every explored history + real restart; syscall-level kill injection for file writes",
     "serves_properties": ["C03"]},
]
NOTES = "All checks run the real implementation from /repo's current working tree through a generated build overlay; see DESIGN.md."
NOT_APPLICABLE = {}
FLOW_NOTE = ("Bounded: 1-2 sources x 1-3 destinations, 2-3 records, deviation bound as reported in evidence (bounds iterated 0,1,2,...); interleavings between "
             "scheduling points rely on data-race freedom; gRPC transport and real connectors are replaced by scripted plugins on the real built-in dispenser/adapter/in-memory stream; "
             "the KV store is a transactional in-memory store with failing writes (no torn writes).")
FLOW_LEVEL = ("Stateless model checking of the implementation: the real lifecycle service (v1 and arch-v2), nodes/worker, connector.Source/Destination, persister and stores run inside a "
              "testing/synctest bubble; every reply of the scripted source/destination/DLQ plugins, every store commit and every control call (start, stop-and-wait, force stop) is a gate; "
              "the explorer enumerates every order and answer of the pending gates up to the deviation bound (CHESS-style iterated bounding, DFS by replay of named choices) and evaluates the oracle on the event log of every execution. ")
TEXT = {
    "C01": {"engine": "gatebox", "technique": "stateless model checking of the real engine (environment-schedule DFS, iterated deviation bound) with an event-log monitor",
            "level": FLOW_LEVEL + "Oracle: at every ack seen by a source plugin, every destination has positively confirmed the record, or the DLQ confirmed it.",
            "design_ref": "DESIGN.md section 6, C01", "note": FLOW_NOTE},
    "C04": {"engine": "gatebox", "technique": "stateless model checking of the real engine (environment-schedule DFS, iterated deviation bound) with an event-log monitor",
            "level": FLOW_LEVEL + "Oracle: per source and run, the sequence of positions acknowledged to the plugin is a prefix of the emitted sequence (order, no gaps, no repeats).",
            "design_ref": "DESIGN.md section 6, C04", "note": FLOW_NOTE},
    "C05": {"engine": "gatebox", "technique": "stateless model checking of the real engine (environment-schedule DFS, iterated deviation bound) with an event-log monitor",
            "level": FLOW_LEVEL + "Oracle: per (destination, source) the received records are strictly increasing in read order within one run; nothing is written twice.",
            "design_ref": "DESIGN.md section 6, C05", "note": FLOW_NOTE},
    "C20": {
        "engine": "seqbox",
        "technique": "bounded-exhaustive enumeration of error trees (explicit-state, reference by structural recursion) + exhaustive call-site scan closing the alphabet",
        "level": "Every error tree of depth <=4 (quick) / <=5 (thorough) over the real constructors {New, Errorf %w, Errorf %v (opaque), Join, FatalError, conduiterr.New/Wrap/WithCode, context.Canceled, plain sentinel, grpc status, ECONNREFUSED} is built with the real constructors and classified by the real IsFatalError / conduiterr.Get / ToStatus+FromStatus / exitcode.ExitCode / api status mapping; each result is compared with a classification computed by structural recursion over the tree. Additionally every registered code (all of them, via the allcodes package) is pushed through every composition of <=3 plain wrappers. A second part scans every cerrors.Errorf call site of the repository for formats outside the enumerated alphabet (more than one %w) and probes the real constructor with that format.",
        "design_ref": "DESIGN.md section 6, C20",
        "note": "Bounded depth; binary nodes draw children from depth <=2 subtrees; xerrors/grpc-status libraries are exercised as linked, not modelled.",
    },
}

_T = "stateless model checking of the real engine (environment-schedule DFS, iterated deviation bound) with an event-log monitor"
TEXT.update({
    "C02": {"engine": "gatebox", "technique": _T + "; store commits and in-transaction write failures are gates",
            "level": FLOW_LEVEL + "Store commits are gates with answers {ok, fail}; the write of each source connector inside a flush transaction can be made to fail; every commit is snapshotted and decoded with the real stores. Oracle: (a) each plugin ack is preceded by a successful commit holding that position or a later one; (c) the stored position never moves backwards; (d) at every commit every record at or before the stored position has been confirmed by all destinations / the DLQ / filtered.",
            "design_ref": "DESIGN.md section 6, C02", "note": FLOW_NOTE},
    "C03": {"engine": "gatebox+crashbox", "technique": _T + " + crash-point enumeration: every store snapshot of every explored history is a crash image on which the engine is really restarted",
            "level": FLOW_LEVEL + "Every prefix of every explored history is a crash instant: the log predicate (no plugin ack beyond the last durable position; nothing at or before it unhandled) is evaluated at every commit/ack event, and for every DISTINCT store snapshot the engine is really restarted (fresh services, Init, lifecycle Init) in a new bubble: the source must be opened exactly at the stored position, a running pipeline must be resumed, and every record after the position must be delivered again.",
            "design_ref": "DESIGN.md section 6, C03", "note": FLOW_NOTE},
    "C06": {"engine": "gatebox", "technique": _T + "; the stop request is a control action offered at every quiescent point",
            "level": FLOW_LEVEL + "Healthy environment only (no fault answers, no answer slower than 5s virtual). The graceful stop (StopAndWait, or Stop + WaitPipeline) is issued at every quiescent point within the deviation bound. Oracle when it returns nil: every delivered record has its final outcome and was acked to its source before the source teardown, stored position == last acked record, every opened connector torn down exactly once; and the stop always returns.",
            "design_ref": "DESIGN.md section 6, C06", "note": FLOW_NOTE},
    "C07": {"engine": "gatebox", "technique": _T,
            "level": FLOW_LEVEL + "Rejections by destinations, per-destination processors and the DLQ itself are explored in every topology incl. fan-out with partial rejection. Oracle: at most one confirmed DLQ copy per rejected record and run (a rejected write may be retried), DLQ record carries original, error and failing component, DLQ order = source order, a record whose DLQ write failed is never acked nor covered by the stored position. (Window arithmetic parity: see DESIGN.md, decided by the E2 part when present.)",
            "design_ref": "DESIGN.md section 6, C07", "note": FLOW_NOTE},
    "C12": {"engine": "gatebox", "technique": _T + "; the force stop is a control action offered at every quiescent point, with subsets of plugins never answering",
            "level": FLOW_LEVEL + "Stop(force) is issued at every quiescent point within the bound, with each subset of {destination, DLQ} blocked (their gates are never granted). Oracle: WaitPipeline returns, final status Degraded, no automatic re-open of the source, C01 keeps holding, and a following Start re-opens the source at a position not past any unhandled record.",
            "design_ref": "DESIGN.md section 6, C12", "note": FLOW_NOTE + " One listed known finding (force stop does not cancel a pending recovery in v1)."},
    "C14": {"engine": "seqbox", "technique": "explicit-state BFS over the real orchestrator + services (state = operation history replayed on fresh instances), with single store-operation fault injection at every index",
            "level": "Breadth-first search over API histories (create/update/delete/start/stop of pipelines, connectors, processors with valid and invalid arguments, API- and file-provisioned, stopped and running), depth 4 (quick) / 5 (thorough), deduplicated by a canonical dump; every call is also executed with its k-th store write/commit failing for every k. Oracles per transition: error => memory dump and stored key set identical to the pre-state; memory == fresh services initialised from the store; references mutually consistent; resources of running / file-provisioned pipelines untouched.",
            "design_ref": "DESIGN.md section 6, C14", "note": "<=2 pipelines, 2 connectors, 2 processors; plugins are scripted; the lifecycle service is a stub that only flips the stored status; single-fault model (one failing store write per call). Two listed known findings."},
    "C18": {"engine": "seqbox", "technique": "literal exhaustion of the IPv4 space and of IPv6 prefix structure through the real guard + bounded-exhaustive enumeration of resolver answers and policy pairs",
            "level": "Refuse() is evaluated on every IPv4 address (thorough: all 2^32; quick: 4 addresses of every /24 plus every floor boundary +-2) in 8 carrier forms (4-byte, v4-mapped, NAT64, v4-translated, 6to4, Teredo client/server, v4-compatible) against an independent integer-range classifier of the documented refused floor; all 65536 leading IPv6 hextets x tails; every resolver answer sequence of length <=2/<=3 over a 14-class address alphabet x allowlists x ports through the real dialContext/dialControl (attempts observed at the dialer Control hook); every (processor policy, ceiling) pair over a 4-entry universe x secret refs x timeouts x sizes through ResolvePolicy.",
            "design_ref": "DESIGN.md section 6, C18", "note": "No network: a dial attempt is observed at the Control hook and stopped before connect(2); redirect/proxy clauses rely on the single http.Client construction (Proxy nil, CheckRedirect) and are not re-enumerated."},
})

TEXT.update({
    "C08": {"engine": "seqbox on the gatebox stack", "technique": "bounded-exhaustive input enumeration (result-kind vectors x rejected pieces) executed on the real full stack, compared with a reference interpreter",
            "level": "Every batch size <=3, every vector of per-record processor result kinds {pass, filter, error, split, short-once} at stage 1 and {pass, filter, error} at stage 2 of a processor chain, 1-2 destinations, and every single rejected piece at every destination: one complete execution of the real engine (v2 worker; v1 nodes without split/short) per input on its default schedule inside a synctest bubble. Reference interpreter: each source record ends with exactly one of {all pieces delivered to all destinations and acked, dead-lettered once with the ORIGINAL record, filtered}; no other record's outcome changes; acked position is the original.",
            "design_ref": "DESIGN.md section 6, C08", "note": "Input enumeration at deviation bound 0 (schedule interleavings are C01-C07's business); nested splits and >3 records are outside the bound."},
    "C09": {"engine": "seqbox + gatebox", "technique": "bounded-exhaustive enumeration of reply shapes (conditional processor merge, sandbox behaviours) + stateless model checking of the full stack with reply-shape answers",
            "level": "(a) RunnableProcessor.Process with a real condition: inputs <=4 x every pattern {no match, match, condition error} x output length 0..kept+1 x kind vectors x slice capacity; oracle: no panic, non-matching records unchanged in their slot, result j belongs to record j. (b) built-in sandbox: plugin behaviours {return, error, panic(error), panic(value), block} x context {live, cancelled before/during}. (c) full stack: destinations answering with wrong/extra/missing/reordered/duplicate acks or errors, processors returning short/long/nil/position-rewriting results, sources emitting duplicate/empty positions or failing: the engine must not panic (a crash of the harness process is attributed to the journaled schedule) and must not acknowledge an affected record.",
            "design_ref": "DESIGN.md section 6, C09", "note": FLOW_NOTE + " One listed known finding (v1 accepts an empty source position)."},
    "C10": {"engine": "gatebox", "technique": _T + " with virtual time (back-off delays fire only when the explorer ticks)",
            "level": FLOW_LEVEL + "Failing component (source read, destination stream, DLQ write, nack threshold) x retry limits {0,1,2} x user stop / server shutdown / force stop at every point. Oracle on the stored status history and on plugin Open calls: a fatal cause (DLQ write failure as first failure of the run) ends Degraded and is never reopened; every automatic reopen happens MinDelay..MaxDelay after the failure and at most MaxRetries times within the window; Degraded / UserStopped / SystemStopped are never followed by an automatic reopen; user stop and shutdown end in the matching status.",
            "design_ref": "DESIGN.md section 6, C10", "note": FLOW_NOTE},
    "C11": {"engine": "gatebox", "technique": _T + "; control histories (start/stop/wait/stop-and-wait/stop-all/force) issued one at a time at every quiescent point",
            "level": FLOW_LEVEL + "Histories of depth <=4 of Start | Stop | WaitPipeline | StopAndWait | StopAll | force stop, the next call issued at any quiescent point after the previous returned, interleaved with start-up, failures, recovery and the cleanup goroutine (whose status writes are gates). Oracle: never two open instances of one connector; a stop/wait on a pipeline reported Running with open connectors finds that run; stop-and-wait returning nil leaves no connector open; Start succeeds once no run is live; the stored status agrees with how the last run ended; every call returns (measured before the harness winds the engine down).",
            "design_ref": "DESIGN.md section 6, C11", "note": FLOW_NOTE},
    "C13": {"engine": "gatebox", "technique": _T + "; reconfigure requests (two concurrent ones, one cancellable) are control actions, processor Open is a gate",
            "level": FLOW_LEVEL + "ReconfigureProcessor (v1; arch-v2 has no live reconfigure) issued at every quiescent point, with the new processor's Open answering ok/err, a second concurrent request and cancellation of the first caller. Scripted processors stamp their configuration generation. Oracle: generations never interleave at a destination, no record processed twice, nothing processed by an older generation after a successful return, data-path oracles (C01/C04/C05) unaffected, every request is answered.",
            "design_ref": "DESIGN.md section 6, C13", "note": FLOW_NOTE},
    "C15": {"engine": "seqbox", "technique": "bounded-exhaustive enumeration of ordered configuration pairs through the real provisioning service, with single store-write fault injection at every index",
            "level": "Every ordered pair (old, new) of a configuration grammar (4-7 processor lists/orders on a connector x 3-6 pipeline processor lists x second connector present/absent x 7-11 single-field edits; 96 / ~600 configurations) is imported through the real provisioning.Service over the real services: Export == new, Plan(new) empty, second import writes nothing and changes nothing, the source connector keeps its stored position; and for every store write index k of the import the k-th write fails: state and Export must equal the previous configuration.",
            "design_ref": "DESIGN.md section 6, C15", "note": "One pipeline, <=2 connectors, <=3 processors per parent; single-fault model. One listed known finding (condition changes of existing processors are not applied)."},
    "C16": {"engine": "gatebox", "technique": _T + "; Plan + ApplyPlanLive are control actions on the running pipeline",
            "level": FLOW_LEVEL + "The real provisioning.Service plans and live-applies a change to the running pipeline at every quiescent point: processor-only (in place), two processors, connector setting (drain + restart), added processor; with a stale hash (state changed between plan and apply), without operator authorisation, two concurrent applies, and new processors failing to open. Oracle: stale/unauthorised => nothing opened, torn down or stored; after any apply (success or failure) records are processed by exactly the configuration that is stored; no record lost or reordered across the apply (C01/C03/C05 predicates); every apply returns.",
            "design_ref": "DESIGN.md section 6, C16", "note": FLOW_NOTE},
    "C17": {"engine": "seqbox", "technique": "bounded-exhaustive enumeration of stored field values through the real services, read back by fresh services on a copy of the store",
            "level": "Every byte string of length <=2 (quick) / <=3 (thorough) plus nil/empty/1.2MB as a source position; destination position maps keyed by a 20-string Unicode class alphabet; every text field of pipeline, DLQ, connector and processor x that alphabet (NUL, quotes, RTL override, 4-byte, U+10FFFF, BOM, 70kB); nil/empty/one-element collections; every status x error text; DLQ windows; all 6 reference orders of 3 connectors/processors; generated pre-0.4.1 connector records (type x settings x processor ids x state shape) and the golden fixtures. Oracle: fresh services initialised from the stored bytes return deep-equal instances (Running comes back as SystemStopped).",
            "design_ref": "DESIGN.md section 6, C17", "note": "Invalid UTF-8 is outside 'Unicode text' (encoding/json replaces it); timestamps are compared with time.Equal."},
    "C19": {"engine": "seqbox + crashbox", "technique": "bounded-exhaustive enumeration of archives and install histories through the real registry code + crash-point enumeration at every file-system syscall (strace fault injection)",
            "level": "(a) every tar entry sequence <=2/<=3 over 15 hostile names x 7 entry types x link targets through ExtractBinary: the file tree outside the private staging directory must not change, no link inside it. (b) every history <=3 of installs over index {version 10/11/12} x {root, freshness-only signature} x content x {digest ok/bad} x verifier {accept, reject, error} x dry-run through the real Install + TrustedVerifier against a reference: artifact present iff every gate passed; an index older than an accepted one (or freshness-only over unverified content) is refused; the recorded high-water mark equals the highest accepted version. (c) SIGKILL / EIO / ENOSPC injected at every one of the ~34 file-system syscalls of index.SaveState + atomicfile.WriteFile: each file is the previous or the new complete content. (d) every order of 2-3 VerifyIndex calls queued on the state lock while an earlier one is parked inside the locked section.",
            "design_ref": "DESIGN.md section 6, C19", "note": "Local httptest server for artifacts; the sigstore verifier is replaced by accept/reject/error stubs (the trust decision itself is not enumerated); unsigned-install policy (TTY/CI/operator matrix) is not enumerated."},
})
for e in ENGINES:
    if e["name"] == "gatebox":
        e["serves_properties"] = ["C01", "C02", "C03", "C04", "C05", "C06", "C07", "C08", "C09", "C10", "C11", "C12", "C13", "C16"]
    if e["name"] == "seqbox":
        e["serves_properties"] = ["C08", "C09", "C14", "C15", "C17", "C18", "C19", "C20"]
    if e["name"] == "crashbox":
        e["serves_properties"] = ["C03", "C19"]


PREEMPT_LEVEL = (" A second part (flow-preempt) adds statement-level scheduling points to the engine files named in lib/checks.py (lib/pointgen rewrites the overlay copy) and "
                 "sweeps a single preemption over every dynamic statement occurrence of small 1x1 scenarios, exploring the environment schedule around it with the remaining deviation budget.")
for _id in ("C01", "C02", "C04", "C05", "C06", "C07", "C09", "C11", "C12", "C13", "C16"):
    TEXT[_id]["technique"] += " + single-preemption sweep over statement-level scheduling points (part flow-preempt)"
    TEXT[_id]["level"] += PREEMPT_LEVEL

TEXT["C07"]["technique"] += " + bounded-exhaustive enumeration of the real dlqWindow / DLQ handlers of both engines against a reference model (parts window-v1, window-v2, parity)"
TEXT["C07"]["level"] += (" Window arithmetic: for every window size and threshold 0..5 and every ack/nack sequence up to length 10 (v2: length 9 x every partition into batches) "
                         "the real dlqWindow of each engine is compared with a reference (last N outcomes, tolerated iff rejections among them <= T, frozen after the first refusal); the exported "
                         "DLQHandlerNode (v1) and DLQ (v2) are driven with the same sequences and must take identical decisions (incl. fatal vs plain refusal) and write exactly the tolerated rejections, in order, to the DLQ.")
TEXT["C19"]["level"] += (" Gate matrix (part gates): digest ok/bad x fetch outcome (ok, artifact missing, truncated, trailing bytes, signature bundle missing) x verifier behaviour (accept, success without a signature, reject, error) "
                         "x --allow-unsigned x all 64 combinations of operator policy / MCP / TTY / CI / env var / typed confirmation x dry-run, each through the real Install into a fresh directory: "
                         "the artifact (and a manifest entry) may appear only if the bytes were fetched completely, match the declared digest, and a signature was verified or the operator's policy permits the requested unsigned install; "
                         "the verifier is never consulted on bytes that failed the digest check.")

TEXT["C10"]["technique"] += " + site-wide preemption sweep over statement-level scheduling points of both lifecycle services (part flow-preempt)"
TEXT["C10"]["level"] += (" A second part (flow-preempt) instruments pkg/lifecycle/service.go and pkg/lifecycle-poc/service.go with statement-level scheduling points and, for every site reached in 0- and 1-deviation schedules, holds EVERY goroutine that reaches the site until nothing else can run (the per-node closures of a failing run racing with the run's cleanup goroutine). "
                         "A scripted long history (failure, user start inside the back-off, quiet period longer than the retry window, failures in a row) checks the retry budget per sliding window.")

TEXT["C19"]["level"] += (" Crash part: a helper process runs the real index.SaveState, atomicfile.WriteFile and registry.SaveManifest - once replacing existing files, once writing them for the first time - "
                         "under strace fault injection (SIGKILL, EIO, ENOSPC at every file-system syscall of the write path; the helper runs single-threaded so that syscall ordinals are the same in every run); "
                         "afterwards the manifest must load through the real loader and hold exactly the previous or the new installs, every other file must be absent / previous or complete.")
TEXT["C07"]["technique"] += " + full-stack differential run of both engines over every subset of rejected records (part engine-parity)"
TEXT["C07"]["level"] += " Engine parity on the full stack: 1 source x 4 records x 1 destination and 1 source x 3 records x 2 destinations (d0 rejects), every subset rejected, windows {0/0,1/0,2/1,4/1,3/2}, default schedule: both engines must dead-letter the same records and agree on stopping (2-source pipelines are run and counted but not judged: v2's window is per source by design)."
TEXT["C07"]["level"] += " On the full stack (single source, single destination, batch 1) the destination's outcome sequence of each run is fed to the same reference window: a tolerated rejection must reach the DLQ, a refused one may neither reach the DLQ nor be acknowledged."

for _id in ("C01", "C04", "C05"):
    TEXT[_id]["level"] += " The preemptive part also covers the funnel engine with TWO per-source workers converging on the shared destination branch (points in funnel/worker.go, destination.go, source.go; answers ok/nack), i.e. the interleavings of real engine goroutines that the scripted plugins cannot choose."
TEXT["C17"]["technique"] += " + stateless schedule exploration of graceful shutdowns on the real full stack (part flow)"
TEXT["C17"]["level"] += " Part flow decides the last clause ('a running pipeline is found again as one to be resumed') on the real engines: every schedule (deviation bound 2/3) of a graceful shutdown of a running pipeline, also with transient failures during the drain, must leave the status the next server start resumes (SystemStopped)."
TEXT["C20"]["technique"] += " + stateless schedule exploration of fatal causes on the real full stack (part flow)"
TEXT["C20"]["level"] += " Part flow closes the gap between the constructor alphabet and the engines' own wrappers: every fatal cause (DLQ rejects / fails, threshold exceeded, processor error not absorbed) is injected on the real stack of both engines through each path it can take (destination acker, processor node, parallel processor node, fan-out siblings) in every schedule up to the deviation bound; the pipeline must degrade, i.e. the fatal mark survived every wrapper between the node and the lifecycle service."
TEXT["C19"]["level"] += " Install histories are also started from a non-initial state in which files nobody verified already sit at the final names: an install that passed every gate must leave the verified bytes there."
TEXT["C18"]["level"] += " Allowlists include one with two carve-outs of different addresses and different ports (only the listed pairs may be dialled, never the cross pairs)."
