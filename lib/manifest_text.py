ENGINES = [
    {"name": "gatebox", "path": "/verif/kit", "kind_free_text": "stateless DFS (CHESS-style, iterated deviation bound) over the environment schedule of the REAL engine running inside a testing/synctest bubble; plugins, store, clock and control calls are gates owned by the explorer",
     "serves_properties": []},
    {"name": "seqbox", "path": "/verif/harness", "kind_free_text": "bounded-exhaustive enumeration / explicit-state BFS over real sequential cores against boring reference models",
     "serves_properties": ["C20"]},
    {"name": "crashbox", "path": "/verif/kit", "kind_free_text": "crash-point enumeration: every prefix of every explored history + real restart; syscall-level kill injection for file writes",
     "serves_properties": []},
]
NOTES = "All checks run the real implementation from /repo's current working tree through a generated build overlay; see DESIGN.md."
NOT_APPLICABLE = {}
TEXT = {
    "C20": {
        "engine": "seqbox",
        "technique": "bounded-exhaustive enumeration of error trees (explicit-state, reference by structural recursion) + exhaustive call-site scan closing the alphabet",
        "level": "Every error tree of depth <=4 (quick) / <=5 (thorough) over the real constructors {New, Errorf %w, Errorf %v (opaque), Join, FatalError, conduiterr.New/Wrap/WithCode, context.Canceled, plain sentinel, grpc status, ECONNREFUSED} is built with the real constructors and classified by the real IsFatalError / conduiterr.Get / ToStatus+FromStatus / exitcode.ExitCode / api status mapping; each result is compared with a classification computed by structural recursion over the tree. Additionally every registered code (all of them, via the allcodes package) is pushed through every composition of <=3 plain wrappers. A second part scans every cerrors.Errorf call site of the repository for formats outside the enumerated alphabet (more than one %w) and probes the real constructor with that format.",
        "design_ref": "DESIGN.md section 6, C20",
        "note": "Bounded depth; binary nodes draw children from depth <=2 subtrees; xerrors/grpc-status libraries are exercised as linked, not modelled.",
    },
}
