ENGINES = [
    {"name": "gatebox", "path": "/verif/kit", "kind_free_text": "stateless DFS (CHESS-style, iterated deviation bound) over the environment schedule of the REAL engine running inside a testing/synctest bubble; plugins, store, clock and control calls are gates owned by the explorer",
     "serves_properties": ["C01", "C04", "C05"]},
    {"name": "seqbox", "path": "/verif/harness", "kind_free_text": "bounded-exhaustive enumeration / explicit-state BFS over real sequential cores against boring reference models",
     "serves_properties": ["C20"]},
    {"name": "crashbox", "path": "/verif/kit", "kind_free_text": "crash-point enumeration: every prefix of every explored history + real restart; syscall-level kill injection for file writes",
     "serves_properties": []},
]
NOTES = "All checks run the real implementation from /repo's current working tree through a generated build overlay; see DESIGN.md."
NOT_APPLICABLE = {}
FLOW_NOTE = ("Bounded: 1-2 sources x 1-3 destinations, 2-3 records, deviation bound as reported in evidence (bounds iterated 0,1,2,...); interleavings between "
             "scheduling points rely on data-race freedom; gRPC transport and real connectors are replaced by scripted plugins on the real built-in dispenser/adapter/in-memory stream; "
             "the KV store is a transactional in-memory store with failing writes (no torn writes).")
FLOW_LEVEL = ("Stateless model checking of the implementation: the real lifecycle service (v1 and arch-v2), nodes/worker, connector.Source/Destination, persister and stores run inside a "
              "testing/synctest bubble; every reply of the scripted source/destination/DLQ plugins, every store commit and every control call (start, stop-and-wait, force stop) is a gate; "
              "the explorer enumerates every order and answer of the pending gates up to the deviation bound (CHESS-style iterated bounding, DFS by replay of named choices) and evaluates the oracle on the event log of every execution. ")
TEXT = {
    "C01": {"engine": "gatebox", "technique": "stateless model checking of the real engine (environment-schedule DFS, iterated deviation bound) with an event-log monitor",
            "level": FLOW_LEVEL + "Oracle: at every ack seen by a source plugin, every destination has positively confirmed the record, or the DLQ confirmed it.",
            "design_ref": "DESIGN.md section 6, C01", "note": FLOW_NOTE},
    "C04": {"engine": "gatebox", "technique": "stateless model checking of the real engine (environment-schedule DFS, iterated deviation bound) with an event-log monitor",
            "level": FLOW_LEVEL + "Oracle: per source and run, the sequence of positions acknowledged to the plugin is a prefix of the emitted sequence (order, no gaps, no repeats).",
            "design_ref": "DESIGN.md section 6, C04", "note": FLOW_NOTE},
    "C05": {"engine": "gatebox", "technique": "stateless model checking of the real engine (environment-schedule DFS, iterated deviation bound) with an event-log monitor",
            "level": FLOW_LEVEL + "Oracle: per (destination, source) the received records are strictly increasing in read order within one run; nothing is written twice.",
            "design_ref": "DESIGN.md section 6, C05", "note": FLOW_NOTE},
    "C20": {
        "engine": "seqbox",
        "technique": "bounded-exhaustive enumeration of error trees (explicit-state, reference by structural recursion) + exhaustive call-site scan closing the alphabet",
        "level": "Every error tree of depth <=4 (quick) / <=5 (thorough) over the real constructors {New, Errorf %w, Errorf %v (opaque), Join, FatalError, conduiterr.New/Wrap/WithCode, context.Canceled, plain sentinel, grpc status, ECONNREFUSED} is built with the real constructors and classified by the real IsFatalError / conduiterr.Get / ToStatus+FromStatus / exitcode.ExitCode / api status mapping; each result is compared with a classification computed by structural recursion over the tree. Additionally every registered code (all of them, via the allcodes package) is pushed through every composition of <=3 plain wrappers. A second part scans every cerrors.Errorf call site of the repository for formats outside the enumerated alphabet (more than one %w) and probes the real constructor with that format.",
        "design_ref": "DESIGN.md section 6, C20",
        "note": "Bounded depth; binary nodes draw children from depth <=2 subtrees; xerrors/grpc-status libraries are exercised as linked, not modelled.",
    },
}
