#!/bin/sh
# Applies every seeded change in /verif/seeded/*/patch.diff in turn to a scratch worktree of /repo's HEAD (never to
# /repo itself), runs the quick tier of the check named in its meta.json (check_id) against that worktree (VERIF_REPO)
# and reports whether a VIOLATION was printed. The worktree is removed at the end.
# usage: lib/seedregress.sh [seed-dir-name ...]
cd /verif || exit 2
WT=/tmp/seedreg-$$
git -C /repo worktree add --detach "$WT" HEAD >/dev/null 2>&1 || exit 2
trap 'git -C /repo worktree remove --force "$WT" 2>/dev/null; git -C /repo worktree prune' EXIT
seeds="$*"; [ -z "$seeds" ] && seeds=$(ls seeded)
for s in $seeds; do
	[ -f seeded/$s/patch.diff ] || continue
	cid=$(python3 -c "import json;print(json.load(open('/verif/seeded/$s/meta.json')).get('check_id','${s%%.*}'))")
	if ! git -C "$WT" apply /verif/seeded/$s/patch.diff 2>/dev/null; then echo "$s: PATCH DOES NOT APPLY"; continue; fi
	out=$(VERIF_REPO="$WT" ./check $cid quick 2>&1)
	git -C "$WT" checkout -- . ; git -C "$WT" clean -fdq pkg cmd 2>/dev/null
	if echo "$out" | grep -a -q "^VIOLATION"; then
		echo "$s: DETECTED by $cid ($(echo "$out" | grep -a -m1 'key=' | sed 's/^ *//' | cut -c1-110))"
	else
		echo "$s: MISSED by $cid ($(echo "$out" | grep -a -m1 '^check' | cut -c1-120))"
	fi
done
