#!/bin/sh
# Applies every seeded change in /verif/seeded/*/patch.diff to /repo in turn, runs the quick tier of the check named in
# its meta.json (check_id) and reports whether a VIOLATION was printed. /repo is restored after each seed.
# usage: lib/seedregress.sh [seed-dir-name ...]
cd /verif || exit 2
if [ -n "$(git -C /repo status --porcelain)" ]; then echo "/repo is not clean"; exit 2; fi
seeds="$*"; [ -z "$seeds" ] && seeds=$(ls seeded)
for s in $seeds; do
	[ -f seeded/$s/patch.diff ] || continue
	cid=$(python3 -c "import json;print(json.load(open('/verif/seeded/$s/meta.json')).get('check_id','${s%%.*}'))")
	if ! git -C /repo apply /verif/seeded/$s/patch.diff 2>/dev/null; then echo "$s: PATCH DOES NOT APPLY"; continue; fi
	out=$(./check $cid quick 2>&1)
	git -C /repo checkout -- .
	if echo "$out" | grep -q "^VIOLATION"; then
		echo "$s: DETECTED by $cid ($(echo "$out" | grep -m1 'key=' | sed 's/^ *//' | cut -c1-110))"
	else
		echo "$s: MISSED by $cid ($(echo "$out" | grep -m1 '^check' | cut -c1-120))"
	fi
done
