#!/usr/bin/env python3
"""Driver of the /verif checks: overlay generation -> go test -c -> sharded run -> merged evidence.

Usage: check <ID> quick|thorough [--replay <file>] [--keep]
Exit 0: property held on everything explored (known findings are printed as KNOWN-FINDING lines).
Exit 1: a line `VIOLATION property=<id> replay=<path>` was printed for every unlisted violation.
"""
import glob
import json
import os
import re
import shutil
import struct
import subprocess
import sys
import tempfile
import time

VERIF = os.path.dirname(os.path.dirname(os.path.abspath(__file__)))
REPO = os.environ.get("VERIF_REPO", "/repo")
MODULE = "github.com/conduitio/conduit"
COMMONS = "github.com/conduitio/conduit-commons"
GO1258 = "/root/go/pkg/mod/golang.org/toolchain@v0.0.1-go1.25.8.linux-amd64"

sys.path.insert(0, os.path.join(VERIF, "lib"))
from checks import CHECKS, INSTRUMENTED_PKGS, COMMONS_INSTRUMENTED  # noqa: E402


def goenv(extra=None):
    env = dict(os.environ)
    goroot = GO1258 if os.path.isdir(GO1258) else None
    if goroot:
        env["PATH"] = os.path.join(goroot, "bin") + os.pathsep + env.get("PATH", "")
        env["GOROOT"] = goroot
    env["GOTOOLCHAIN"] = "local"
    env["GOPROXY"] = "off"
    env["GOFLAGS"] = ""  # never -mod=mod inside /repo: it rewrites go.sum
    env["GONOSUMDB"] = "*"
    env["GONOSUMCHECK"] = "1"
    env["GOFLAGS"] = ""
    if extra:
        env.update(extra)
    return env


SYNC_IMPORT = re.compile(r'^(\s*)(?:import\s+)?(?:sync\s+)?"sync"\s*$', re.M)


def rewrite_sync(src):
    """Rewrite the import spec "sync" to the vsync shim. Only the import spec is touched."""
    def repl(m):
        line = m.group(0)
        if line.lstrip().startswith("import"):
            return m.group(1) + 'import sync "%s/vsync"' % COMMONS
        return m.group(1) + 'sync "%s/vsync"' % COMMONS
    # only rewrite inside the import section: up to the first top-level func/type/var/const after imports
    m = re.search(r'^(func|type|var|const)\b', src, re.M)
    head_end = m.start() if m else len(src)
    head, tail = src[:head_end], src[head_end:]
    head, n = SYNC_IMPORT.subn(repl, head)
    return head + tail, n


def commons_dir():
    out = subprocess.run(["go", "list", "-m", "-f", "{{.Dir}}", COMMONS], cwd=REPO, env=goenv(),
                         capture_output=True, text=True)
    d = out.stdout.strip()
    if out.returncode != 0 or not d:
        raise SystemExit("cannot locate conduit-commons in module cache: " + out.stderr)
    return d


def build_overlay(scratch, parts, instrument):
    """Generate the overlay (and, when instrumenting, the shimmed conduit-commons copy + modfile)."""
    replace = {}
    # kit -> virtual package pkg/verifkit
    for f in sorted(glob.glob(os.path.join(VERIF, "kit", "*.go"))):
        replace[os.path.join(REPO, "pkg", "verifkit", os.path.basename(f))] = f
    for sub in sorted(os.listdir(os.path.join(VERIF, "kit"))):
        if os.path.isdir(os.path.join(VERIF, "kit", sub)):
            for f in sorted(glob.glob(os.path.join(VERIF, "kit", sub, "*.go"))):
                replace[os.path.join(REPO, "pkg", "verifkit", sub, os.path.basename(f))] = f
    # harness files -> in-package test files
    for p in parts:
        hdir = os.path.join(VERIF, "harness", p["harness"])
        for f in sorted(glob.glob(os.path.join(hdir, "*.go"))):
            name = "zz_verif_" + p["harness"].replace("/", "_") + "_" + os.path.basename(f)
            replace[os.path.join(REPO, p["pkg"], name)] = f
        for extra_pkg, extra_dir in p.get("virtual", {}).items():
            for f in sorted(glob.glob(os.path.join(VERIF, extra_dir, "*.go"))):
                replace[os.path.join(REPO, extra_pkg, os.path.basename(f))] = f
    modfile = None
    if instrument:
        gen = os.path.join(scratch, "gen")
        os.makedirs(gen, exist_ok=True)
        nrew = 0
        for pkg in INSTRUMENTED_PKGS:
            pdir = os.path.join(REPO, pkg)
            if not os.path.isdir(pdir):
                continue
            for f in sorted(os.listdir(pdir)):
                if not f.endswith(".go"):
                    continue
                src = open(os.path.join(pdir, f), encoding="utf-8").read()
                new, n = rewrite_sync(src)
                if n:
                    dst = os.path.join(gen, pkg.replace("/", "__") + "__" + f)
                    open(dst, "w", encoding="utf-8").write(new)
                    replace[os.path.join(pdir, f)] = dst
                    nrew += n
        # shimmed copy of conduit-commons (module cache files cannot be overlaid). It lives at a stable, content-addressed
        # path so that the go build cache stays valid between runs; it is regenerated whenever it is missing.
        cdir = commons_dir()
        import hashlib
        h = hashlib.sha256()
        h.update(cdir.encode())
        for f in sorted(glob.glob(os.path.join(VERIF, "shim", "vsync", "*.go"))):
            h.update(open(f, "rb").read())
        h.update(repr(COMMONS_INSTRUMENTED).encode())
        ccopy = os.path.join(VERIF, ".cache", "commons-" + h.hexdigest()[:16])
        if not os.path.isdir(ccopy):
            os.makedirs(os.path.dirname(ccopy), exist_ok=True)
            tmpc = tempfile.mkdtemp(prefix="commons-", dir=os.path.dirname(ccopy))
            os.rmdir(tmpc)
            shutil.copytree(cdir, tmpc)
            subprocess.run(["chmod", "-R", "u+w", tmpc], check=True)
            for pkg in COMMONS_INSTRUMENTED:
                pdir = os.path.join(tmpc, pkg)
                for f in sorted(os.listdir(pdir)):
                    if f.endswith(".go") and not f.endswith("_test.go"):
                        path = os.path.join(pdir, f)
                        new, n = rewrite_sync(open(path, encoding="utf-8").read())
                        if n:
                            open(path, "w", encoding="utf-8").write(new)
            vs = os.path.join(tmpc, "vsync")
            os.makedirs(vs, exist_ok=True)
            for f in glob.glob(os.path.join(VERIF, "shim", "vsync", "*.go")):
                shutil.copy(f, vs)
            try:
                os.rename(tmpc, ccopy)
            except OSError:
                shutil.rmtree(tmpc, ignore_errors=True)  # somebody else won the race
        modfile = os.path.join(scratch, "go.mod")
        gomod = open(os.path.join(REPO, "go.mod"), encoding="utf-8").read()
        gomod += "\nreplace %s => %s\n" % (COMMONS, ccopy)
        open(modfile, "w", encoding="utf-8").write(gomod)
        shutil.copy(os.path.join(REPO, "go.sum"), os.path.join(scratch, "go.sum"))
    # statement-level scheduling points (preemptive mode): instrument the listed files with lib/pointgen
    point_files = []
    for p in parts:
        for f in p.get("points", []):
            if f not in point_files:
                point_files.append(f)
    if point_files:
        tool = os.path.join(scratch, "pointgen")
        r = subprocess.run(["go", "build", "-o", tool, os.path.join(VERIF, "lib", "pointgen", "main.go")], cwd=scratch, env=goenv(), capture_output=True, text=True)
        if r.returncode != 0:
            raise SystemExit("cannot build pointgen: " + r.stderr)
        pdir = os.path.join(scratch, "points")
        os.makedirs(pdir, exist_ok=True)
        for f in point_files:
            target = os.path.join(REPO, f)
            src = replace.get(target, target)
            dst = os.path.join(pdir, f.replace("/", "__"))
            r = subprocess.run([tool, src, dst, os.path.basename(f)], capture_output=True, text=True)
            if r.returncode != 0:
                raise SystemExit("pointgen failed for %s: %s" % (f, r.stderr))
            replace[target] = dst
    ov = os.path.join(scratch, "overlay.json")
    json.dump({"Replace": replace}, open(ov, "w"), indent=1)
    return ov, modfile


def build_part(scratch, p, ov, modfile, race=False):
    binpath = os.path.join(scratch, "bin_" + p["name"] + ("_race" if race else "") + ".test")
    cmd = ["go", "test", "-c", "-vet=off", "-overlay", ov, "-tags", "verif", "-o", binpath]
    if modfile:
        cmd += ["-modfile", modfile]
    if race:
        cmd += ["-race"]
    cmd += ["./" + p["pkg"]]
    t0 = time.time()
    r = subprocess.run(cmd, cwd=REPO, env=goenv(), capture_output=True, text=True)
    if r.returncode != 0:
        sys.stdout.write(r.stdout)
        sys.stderr.write(r.stderr)
        raise SystemExit("BUILD FAILED for part %s (%s)" % (p["name"], " ".join(cmd)))
    return binpath, time.time() - t0


def load_known():
    path = os.path.join(VERIF, "known_findings.json")
    if not os.path.exists(path):
        return []
    return json.load(open(path)).get("findings", [])


def read_hashes(path):
    if not os.path.exists(path):
        return set()
    b = open(path, "rb").read()
    return set(struct.unpack("<%dQ" % (len(b) // 8), b)) if b else set()


def main(argv):
    if len(argv) < 2 or argv[1] not in CHECKS:
        print("usage: check <ID> quick|thorough [--replay file] [--keep] [--build-only]\nknown ids: " + " ".join(sorted(CHECKS)))
        return 2
    pid = argv[1]
    tier = "quick"
    replay = None
    keep = False
    build_only = False
    only_part = None
    args = argv[2:]
    i = 0
    while i < len(args):
        a = args[i]
        if a in ("quick", "thorough"):
            tier = a
        elif a == "--replay":
            replay = os.path.abspath(args[i + 1]); i += 1
        elif a == "--keep":
            keep = True
        elif a == "--build-only":
            build_only = True
        elif a == "--part":
            only_part = args[i + 1]; i += 1
        i += 1
    if os.environ.get("VERIF_TIER") in ("quick", "thorough") and len([a for a in args if a in ("quick", "thorough")]) == 0:
        tier = os.environ["VERIF_TIER"]
    cfg = CHECKS[pid]
    parts = [p for p in cfg["parts"] if (tier == "thorough" or not p.get("thorough_only"))]
    if replay and not only_part:
        # a replay file names the part that produced it: only that part is run
        try:
            rp = json.load(open(replay)).get("part")
        except Exception:
            rp = None
        if rp and any(p["name"] == rp for p in cfg["parts"]):
            parts = [p for p in cfg["parts"] if p["name"] == rp]
    if only_part:
        parts = [p for p in parts if p["name"] == only_part]
    seed = int(os.environ.get("VERIF_SEED", "0") or 0)
    t_start = time.time()
    scratch_root = os.environ.get("VERIF_SCRATCH", "/var/tmp")
    os.makedirs(scratch_root, exist_ok=True)
    scratch = tempfile.mkdtemp(prefix="verif-%s-" % pid, dir=scratch_root)
    outdir = os.path.join(scratch, "out")
    os.makedirs(outdir)
    replay_dir = os.path.join(VERIF, "replays")
    try:
        instrument = any(p.get("instrument") for p in parts)
        ov, modfile = build_overlay(scratch, parts, instrument)
        bins = {}
        built = {}
        build_s = 0.0
        for p in parts:
            key = (p["pkg"], instrument)
            if key not in built:
                # the overlay is shared by all parts of a check: when one part is instrumented, every part is built
                # against the rewritten packages and therefore needs the modfile with the shimmed conduit-commons
                built[key] = build_part(scratch, p, ov, modfile if instrument else None)
                build_s += built[key][1]
            bins[p["name"]] = built[key][0]
        if build_only:
            print("build ok (%.1fs)" % build_s)
            return 0
        # run all shards of all parts, at most ncpu at a time
        jobs = []
        for p in parts:
            n = p.get("shards_thorough", p.get("shards", 1)) if tier == "thorough" else p.get("shards", 1)
            if replay:
                n = 1
            for s in range(n):
                jobs.append((p, s, n))
        ncpu = int(os.environ.get("VERIF_JOBS", os.cpu_count() or 4))
        running = []
        failed = []
        logs = []

        def start(job):
            p, s, n = job
            env = goenv({
                "VERIF_TIER": tier, "VERIF_SHARD": "%d/%d" % (s, n), "VERIF_OUT": outdir,
                "VERIF_REPLAY_DIR": replay_dir, "VERIF_SEED": str(seed), "VERIF_PROPERTY": pid,
                "GODEBUG": "randautoseed=0", "VERIF_DIR": VERIF, "VERIF_REPO_DIR": REPO,
                "VERIF_HELPER_DIR": scratch, "VERIF_PART": p["name"],
            })
            pf = os.path.join(scratch, "poison_%s_%d.json" % (p["name"], s))
            if os.path.exists(pf):
                env["VERIF_POISON"] = pf
            if replay:
                env["VERIF_REPLAY"] = replay
            if p.get("gomaxprocs"):
                env["GOMAXPROCS"] = str(p["gomaxprocs"])
            budget = p.get("budget_thorough_s", p.get("budget_s")) if tier == "thorough" else p.get("budget_s")
            if budget and "VERIF_BUDGET_S" not in os.environ:
                env["VERIF_BUDGET_S"] = str(budget)
            timeout = p.get("timeout_thorough", "120m") if tier == "thorough" else p.get("timeout", "30m")
            log = os.path.join(scratch, "log_%s_%d.txt" % (p["name"], s))
            cmd = [bins[p["name"]], "-test.run", p["run"], "-test.timeout", timeout, "-test.v"]
            fh = open(log, "a")  # a shard re-run after a crash keeps the crash's stack
            cwd = os.path.join(REPO, p["pkg"])
            if not os.path.isdir(cwd):
                cwd = scratch
            pr = subprocess.Popen(cmd, cwd=cwd, env=env, stdout=fh, stderr=subprocess.STDOUT)
            return (pr, job, log, fh)

        pending = list(jobs)
        crash_violations = []
        attempts = {}
        poison = {}
        while pending or running:
            while pending and len(running) < ncpu:
                running.append(start(pending.pop(0)))
            time.sleep(0.05)
            still = []
            for pr, job, log, fh in running:
                rc = pr.poll()
                if rc is None:
                    still.append((pr, job, log, fh))
                    continue
                fh.close()
                logs.append(log)
                if rc != 0:
                    p, sh, n = job
                    base = os.path.join(outdir, "%s.%s.%d" % (pid, p["name"], sh))
                    txt = open(log, errors="replace").read()
                    crashed = not os.path.exists(base + ".json") and os.path.exists(base + ".journal") and ("panic:" in txt or "fatal error:" in txt) and "WATCHDOG" not in txt
                    if crashed and not replay:
                        # the engine crashed the harness process: attribute it to the journaled schedule, then go on without it
                        j = json.load(open(base + ".journal"))
                        os.remove(base + ".journal")
                        m = re.search(r"^(panic: .*|fatal error: .*)$", txt, re.M)
                        what = m.group(1) if m else "process crashed"
                        key = (p["name"], sh)
                        poison.setdefault(key, []).append({"scenario": j["scenario"], "prefix": j["prefix"]})
                        rdir = os.path.join(replay_dir, pid)
                        os.makedirs(rdir, exist_ok=True)
                        import hashlib
                        rfile = os.path.join(rdir, "%s-crash-%s.json" % (p["name"], hashlib.sha256(json.dumps(j, sort_keys=True).encode()).hexdigest()[:12]))
                        json.dump({"property": pid, "part": p["name"], "key": pid + "/engine-panic", "text": what,
                                   "replay": {"scenario": j["scenario"], "params": j.get("params"), "schedule": j["prefix"]}}, open(rfile, "w"), indent=1)
                        stack_tail = txt[txt.find(what):][:3000]
                        crash_violations.append({"key": pid + "/engine-panic", "text": "the engine crashed the process while executing schedule %s of scenario %s: %s\n%s" % (j["prefix"], j["scenario"], what, stack_tail), "replay_file": rfile})
                        attempts[key] = attempts.get(key, 0) + 1
                        if attempts[key] <= 6:
                            pf = os.path.join(scratch, "poison_%s_%d.json" % (p["name"], sh))
                            json.dump(poison[key], open(pf, "w"))
                            pending.append((p, sh, n))
                            continue
                    failed.append((job, rc, log))
            running = still
        # merge
        merged = merge(pid, tier, seed, cfg, parts, outdir, build_s, t_start)
        known = load_known()
        new_violations = []
        seen_crash = set()
        for v in crash_violations:
            if v["key"] not in seen_crash:
                seen_crash.add(v["key"])
                merged["_violations"].append(v)
        for v in merged["_violations"]:
            k = next((f for f in known if f.get("property") == pid and f.get("status") == "known" and f.get("key") == v["key"]), None)
            if k:
                print("KNOWN-FINDING: property=%s %s [%s]" % (pid, k.get("what", v["text"].splitlines()[0]), v["key"]))
            else:
                new_violations.append(v)
        # a harness process that died without reporting is a broken check, not a pass
        harness_failures = []
        for job, rc, log in failed:
            p, s, n = job
            part_file = os.path.join(outdir, "%s.%s.%d.json" % (pid, p["name"], s))
            txt = open(log, errors="replace").read()
            if not os.path.exists(part_file) or "verif: violation" not in txt:
                harness_failures.append((p["name"], s, rc, txt[-4000:]))
        ev = merged["evidence"]
        ev["violations"] = len(new_violations)
        ev["coverage"]["known_findings_reported"] = len(merged["_violations"]) - len(new_violations)
        if harness_failures:
            ev["coverage"]["exhaustive"] = False
            ev["coverage"]["harness_failures"] = [{"part": a, "shard": b, "rc": c} for a, b, c, _ in harness_failures]
        os.makedirs(os.path.join(VERIF, "evidence"), exist_ok=True)
        if not replay:
            json.dump(ev, open(os.path.join(VERIF, "evidence", pid + ".json"), "w"), indent=1)
        cov = ev["coverage"]
        print("check %s %s: evaluations=%d states=%d transitions=%d traces=%d outcomes=%d exhaustive=%s caps=%s wall=%.1fs (build %.1fs)" % (
            pid, tier, cov["evaluations"], cov["states"], cov["transitions"], cov["traces_validated_against_impl"],
            cov["distinct_outcomes"], cov["exhaustive"], cov.get("caps_hit"), ev["wall_s"], build_s))
        for pn, pc in cov["parts"].items():
            print("  part %-28s evals=%-9d states=%-8d outcomes=%-4d exhaustive=%s %s" % (pn, pc["evaluations"], pc["states"], len(pc["outcomes"]), pc["exhaustive"], json.dumps(pc.get("bounds"))))
        rc = 0
        for v in new_violations:
            print("VIOLATION property=%s replay=%s" % (pid, v["replay_file"]))
            print("   key=%s %s" % (v["key"], v["text"].replace("\n", "\n   ")))
            rc = 1
        for name, s, code, tail in harness_failures:
            print("HARNESS-FAILURE part=%s shard=%d rc=%d (no violation reported; treat this check run as broken)\n%s" % (name, s, code, tail))
            rc = 3 if rc == 0 else rc
        if keep or os.environ.get("VERIF_KEEP"):
            print("scratch kept at", scratch)
        return rc
    finally:
        if not (keep or os.environ.get("VERIF_KEEP")):
            shutil.rmtree(scratch, ignore_errors=True)


def merge(pid, tier, seed, cfg, parts, outdir, build_s, t_start):
    cov_parts = {}
    tot = {"evaluations": 0, "transitions": 0, "traces": 0}
    all_states = set()
    all_nontrivial = set()
    samples = []
    outcomes_all = set()
    violations = []
    caps = []
    exhaustive = True
    divergences = 0
    assumptions = list(cfg.get("assumptions", []))
    for p in parts:
        files = sorted(glob.glob(os.path.join(outdir, "%s.%s.*.json" % (pid, p["name"]))))
        pc = {"evaluations": 0, "transitions": 0, "traces": 0, "states": 0, "outcomes": {}, "exhaustive": True,
              "bounds": {}, "extra": {}, "shards": len(files), "caps_hit": []}
        st = set()
        if not files:
            pc["exhaustive"] = False
            pc["caps_hit"].append("no report written")
        seen_vio = set()
        for f in files:
            d = json.load(open(f))
            for k in ("evaluations", "transitions", "traces"):
                pc[k] += d[k]
            for o, c in d["outcomes"].items():
                pc["outcomes"][o] = pc["outcomes"].get(o, 0) + c
            pc["exhaustive"] = pc["exhaustive"] and d["exhaustive"]
            for c in d.get("caps_hit") or []:
                if c not in pc["caps_hit"]:
                    pc["caps_hit"].append(c)
            pc["bounds"].update(d.get("bounds") or {})
            for k, v in (d.get("extra") or {}).items():
                if isinstance(v, (int, float)) and not isinstance(v, bool) and isinstance(pc["extra"].get(k, 0), (int, float)):
                    pc["extra"][k] = pc["extra"].get(k, 0) + v
                else:
                    pc["extra"][k] = v
            divergences += d.get("replay_divergences", 0)
            for a in d.get("assumptions") or []:
                if a not in assumptions:
                    assumptions.append(a)
            if len(samples) < 12:
                for s in (d.get("samples") or [])[:3]:
                    samples.append({"part": p["name"], "case": s})
            for v in d.get("violations") or []:
                if (v["key"], v["replay_file"]) not in seen_vio:
                    seen_vio.add((v["key"], v["replay_file"]))
                    violations.append(v)
            base = f[:-5]
            st |= read_hashes(base + ".states")
            all_nontrivial |= set((p["name"], h) for h in read_hashes(base + ".nontrivial"))
        pc["states"] = len(st)
        all_states |= set((p["name"], h) for h in st)
        for k in tot:
            tot[k] += pc[k]
        for o in pc["outcomes"]:
            outcomes_all.add(p["name"] + ":" + o)
        exhaustive = exhaustive and pc["exhaustive"]
        caps += [p["name"] + ": " + c for c in pc["caps_hit"]]
        cov_parts[p["name"]] = pc
    # keep one violation per key (first), but count all
    uniq = {}
    for v in violations:
        uniq.setdefault(v["key"], v)
    nstates = len(all_states)
    coverage = {
        "states": max(nstates, 0), "transitions": tot["transitions"],
        "traces_validated_against_impl": tot["traces"], "samples": samples,
        "evaluations": tot["evaluations"], "distinct_nontrivial": len(all_nontrivial) if all_nontrivial else nstates,
        "rule": cfg.get("rule", ""), "exhaustive": exhaustive, "caps_hit": caps,
        "distinct_outcomes": len(outcomes_all), "replay_divergences": divergences,
        "parts": cov_parts, "build_s": round(build_s, 1),
        "explanation": cfg.get("explanation", ""),
    }
    ev = {"property_id": pid, "tier": tier, "seed": seed, "level": "model_checking", "coverage": coverage,
          "assumptions": assumptions, "wall_s": round(time.time() - t_start, 2), "violations": 0}
    return {"evidence": ev, "_violations": list(uniq.values())}


if __name__ == "__main__":
    sys.exit(main(sys.argv))
