#!/usr/bin/env python3
"""Regenerates /verif/MANIFEST.json from lib/checks.py + lib/manifest_text.py and validates it."""
import json, os, sys
VERIF = os.path.dirname(os.path.dirname(os.path.abspath(__file__)))
sys.path.insert(0, os.path.join(VERIF, "lib"))
from checks import CHECKS
from manifest_text import TEXT, NOT_APPLICABLE, ENGINES, NOTES

props = [json.loads(l)["id"] for l in open(os.path.join(VERIF, "properties.jsonl"))]
baseline = json.load(open("/root/.vp/BASELINE.json"))["cmd"] if os.path.exists("/root/.vp/BASELINE.json") else ""
checks = []
for pid in props:
    if pid not in CHECKS:
        continue
    t = TEXT[pid]
    checks.append({
        "property_id": pid,
        "quick_cmd": "./check %s quick" % pid,
        "thorough_cmd": "./check %s thorough" % pid,
        "evidence_file": "/verif/evidence/%s.json" % pid,
        "replay_cmd_template": "./check %s quick --replay {path}" % pid,
        "engine": t["engine"],
        "level_claimed": {"category": "model_checking", "text": t["level"], "design_ref": t["design_ref"]},
        "level_note": t["note"],
        "technique": t["technique"],
    })
na = [{"property_id": p, "reason": NOT_APPLICABLE.get(p, "no check built yet in this session (see DESIGN.md section 6 for the planned check)")} for p in props if p not in CHECKS]
m = {
    "version": 1,
    "setup_cmd": "./setup.sh",
    "hooks": {
        "guard": "verif",
        "enable": "no hook is committed to /repo: checks build with `go test -c -tags verif -overlay <generated from the current /repo tree>` (harness files, the verifkit package, and \"sync\"->vsync import rewrites are injected by the overlay; conduit-commons is replaced by a shimmed copy through -modfile)",
        "baseline_off_cmd": baseline,
        "source_commits": [],
        "add_only": True,
    },
    "engines": ENGINES,
    "checks": checks,
    "not_applicable": na,
    "notes": NOTES,
}
json.dump(m, open(os.path.join(VERIF, "MANIFEST.json"), "w"), indent=1)
try:
    import jsonschema
    jsonschema.validate(m, json.load(open("/root/.vp/MANIFEST.schema.json")))
    print("MANIFEST.json valid;", len(checks), "checks,", len(na), "not claimed")
except ImportError:
    print("MANIFEST.json written (jsonschema not importable: run with python3-vt to validate)")
