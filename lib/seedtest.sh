#!/bin/sh
# usage: lib/seedtest.sh <patch.diff> <check-id> [tier]   -- applies a seeded change to /repo, runs the check, reverts.
patch="$1"; id="$2"; tier="${3:-quick}"
cd /repo || exit 2
git diff --quiet || { echo "/repo has uncommitted changes"; exit 2; }
git apply "$patch" || { echo "patch does not apply"; exit 2; }
cd /verif && ./check "$id" "$tier" > /tmp/seedtest.out 2>&1; rc=$?
cd /repo && git checkout -- . && git clean -fdq pkg cmd 2>/dev/null
grep -E "^check |^VIOLATION|^KNOWN|^HARNESS|^   key=" /tmp/seedtest.out | cut -c1-420 | head -${SEEDLINES:-12}
echo "exit=$rc"
